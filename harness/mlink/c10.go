package mlink

// C10 (mlink): List edited through cursors, and Queue, vs reference sequences.

func vListSeq(lst *List[int]) []int {
	var out []int
	lst.Each(func(v int) bool { out = append(out, v); return true })
	return out
}

func vCheckList(lst *List[int], ref []int, what string) {
	got := vListSeq(lst)
	vAssert(len(got) == len(ref), what+": list length equals the reference")
	for i := range got {
		if i < len(ref) {
			vAssert(got[i] == ref[i], what+": list contents equal the reference")
		}
	}
	vAssert(lst.Len() == len(ref), what+": Len")
	vAssert(lst.IsEmpty() == (len(ref) == 0), what+": IsEmpty")
	for i := 0; i <= len(ref); i++ {
		v, ok := lst.Peek(i)
		vAssert(ok == (i < len(ref)), what+": Peek(i) ok iff i < Len")
		if i < len(ref) {
			vAssert(v == ref[i], what+": Peek(i)")
		} else {
			vAssert(v == 0, what+": Peek past the end is zero")
		}
	}
}

// vCursorAt obtains a cursor at position i (len = end) by one of the documented ways.
func vCursorAt(lst *List[int], ref []int, i int) *Cursor[int] {
	n := len(ref)
	switch vChoice("how", 3) {
	case 0:
		return lst.At(i)
	case 1: // from the front with Next
		c := lst.At(0)
		for k := 0; k < i; k++ {
			c.Next()
		}
		return c
	default:
		if i == n {
			return lst.End()
		}
		if i == n-1 {
			return lst.Last()
		}
		// Find the first element equal to ref[i]; only usable when that is position i
		for k := 0; k < i; k++ {
			vAssume(ref[k] != ref[i])
		}
		t := ref[i]
		return lst.Find(func(v int) bool { return v == t })
	}
}

// vAtPos checks that cursor c is at position pos of ref.
func vAtPos(c *Cursor[int], ref []int, pos int, what string) {
	vAssert(c.AtEnd() == (pos >= len(ref)), what+": cursor AtEnd matches its documented position")
	if pos < len(ref) {
		vAssert(c.Get() == ref[pos], what+": cursor Get is the element at its documented position")
	} else {
		vAssert(c.Get() == 0, what+": Get at end is zero")
	}
}

func vInsert(ref []int, pos int, vs ...int) []int {
	out := make([]int, 0, len(ref)+len(vs))
	out = append(out, ref[:pos]...)
	out = append(out, vs...)
	return append(out, ref[pos:]...)
}

// vEdit applies one edit through c (at position pos); returns the new reference and position.
func vEdit(c *Cursor[int], ref []int, pos int, op int) ([]int, int) {
	n := len(ref)
	switch op {
	case 0: // Push
		x := vOrd("x")
		c.Push(x)
		return vInsert(ref, pos, x), pos
	case 1: // Add one
		x := vOrd("x")
		c.Add(x)
		return vInsert(ref, pos, x), pos + 1
	case 2: // Add two
		x, y := vOrd("x"), vOrd("y")
		c.Add(x, y)
		return vInsert(ref, pos, x, y), pos + 2
	case 3: // Set
		x := vOrd("x")
		c.Set(x)
		if pos < n {
			out := append([]int{}, ref...)
			out[pos] = x
			return out, pos
		}
		return append(append([]int{}, ref...), x), pos
	case 4: // Remove
		got := c.Remove()
		if pos < n {
			vAssert(got == ref[pos], "Remove returns the element at the cursor")
			out := append([]int{}, ref[:pos]...)
			return append(out, ref[pos+1:]...), pos
		}
		vAssert(got == 0, "Remove at end returns zero")
		return ref, pos
	default: // Truncate
		c.Truncate()
		return append([]int{}, ref[:pos]...), pos
	}
}

func vMkList(n int) (*List[int], []int) {
	lst := NewList[int]()
	ref := make([]int, n)
	for i := range ref {
		ref[i] = vOrd("e")
	}
	lst.At(0).Add(ref...)
	return lst, ref
}

// VH_mlink_Edits: 1..k edits through a cursor at an arbitrary position.
func VH_mlink_Edits() {
	lst, ref := vMkList(vCase("n"))
	vCheckList(lst, ref, "built")
	pos := vChoice("pos", len(ref)+1)
	c := vCursorAt(lst, ref, pos)
	vAtPos(c, ref, pos, "fresh cursor")
	for s := 0; s < vCase("edits"); s++ {
		ref, pos = vEdit(c, ref, pos, vChoice("edit", 6))
		vCheckList(lst, ref, "after edit")
		vAtPos(c, ref, pos, "after edit")
		if vChoice("advance", 2) == 1 {
			more := c.Next()
			if pos < len(ref) {
				pos++
			}
			vAssert(more == (pos < len(ref)), "Next reports whether the new position holds an element")
			vAtPos(c, ref, pos, "after Next")
		}
	}
	vCover("mlink-edits")
}

// VH_mlink_Stale: a second cursor left after a removed / inside a truncated
// region must panic "invalid cursor" on every use, terminate, and leave the list alone.
func VH_mlink_Stale() {
	lst, ref := vMkList(vCase("n"))
	n := len(ref)
	pos := vChoice("pos", n) // an element position
	j := vChoice("other", n+1)
	c := lst.At(pos)
	other := lst.At(j)
	var stale bool
	switch vCase("by") {
	case 0: // Remove at pos invalidates cursors at pos+1
		c.Remove()
		ref = append(append([]int{}, ref[:pos]...), ref[pos+1:]...)
		stale = j == pos+1
	case 1: // Truncate at pos invalidates cursors after pos
		c.Truncate()
		ref = append([]int{}, ref[:pos]...)
		stale = j > pos
	default: // Clear invalidates every cursor past the first position
		lst.Clear()
		ref = nil
		stale = j > 0
	}
	vCheckList(lst, ref, "after invalidating edit")
	if !stale {
		vCover("other-cursor-still-valid")
		p, _ := vPanics(func() { other.AtEnd() })
		vAssert(!p, "a cursor not after the removed region stays usable")
		return
	}
	vCover("stale-cursor")
	use := vChoice("use", 8)
	p, msg := vPanics(func() {
		switch use {
		case 0:
			other.Get()
		case 1:
			other.Set(7)
		case 2:
			other.AtEnd()
		case 3:
			other.Next()
		case 4:
			other.Push(7)
		case 5:
			other.Add(7)
		case 6:
			other.Remove()
		case 7:
			other.Truncate()
		}
	})
	vAssert(p, "every use of a stale cursor panics")
	vAssert(msg == "invalid cursor", "the panic says invalid cursor")
	vCheckList(lst, ref, "after using a stale cursor")
}

func VH_mlink_Queue() {
	var q *Queue[int]
	if vCase("zero") == 1 {
		q = new(Queue[int])
	} else {
		q = NewQueue[int]()
	}
	var ref []int
	for s := 0; s < vCase("steps"); s++ {
		switch vChoice("op", 3) {
		case 0:
			x := vOrd("x")
			q.Add(x)
			ref = append(ref, x)
		case 1:
			got, ok := q.Pop()
			vAssert(ok == (len(ref) > 0), "Queue.Pop reports emptiness")
			if len(ref) > 0 {
				vAssert(got == ref[0], "Queue.Pop returns the oldest element")
				ref = ref[1:]
			} else {
				vAssert(got == 0, "Queue.Pop on empty returns zero")
			}
		case 2:
			q.Clear()
			ref = nil
		}
		vAssert(q.Len() == len(ref), "Queue.Len")
		vAssert(q.IsEmpty() == (len(ref) == 0), "Queue.IsEmpty")
		if len(ref) > 0 {
			vAssert(q.Front() == ref[0], "Queue.Front")
		} else {
			vAssert(q.Front() == 0, "Queue.Front on empty is zero")
		}
		i := 0
		q.Each(func(v int) bool {
			vAssert(i < len(ref) && v == ref[i], "Queue.Each in FIFO order")
			i++
			return true
		})
		vAssert(i == len(ref), "Queue.Each yields every element")
		for k := 0; k <= len(ref); k++ {
			v, ok := q.Peek(k)
			vAssert(ok == (k < len(ref)), "Queue.Peek ok iff in range")
			if k < len(ref) {
				vAssert(v == ref[k], "Queue.Peek(k)")
			}
		}
	}
	vCover("mlink-queue")
}

func VT_mlink_script() {
	lst := NewList[int]()
	lst.At(0).Add(1, 2, 3, 4, 5)
	c := lst.At(2)
	c.Push(9)
	c.Next()
	r := c.Remove()
	lst.Last().Set(7)
	lst.End().Add(8)
	vOut("list", vListSeq(lst), r, lst.Len())
	lst.At(3).Truncate()
	vOut("trunc", vListSeq(lst))
	q := NewQueue[int]()
	for i := 0; i < 4; i++ {
		q.Add(i)
	}
	a, _ := q.Pop()
	b, _ := q.Peek(1)
	vOut("queue", a, b, q.Len(), q.Front())
}

// VH_mlink_FarOffsets: List.Peek/At and Queue.Peek for every offset in the int range.
func VH_mlink_FarOffsets() {
	n := vCase("n")
	lst := NewList[int]()
	q := NewQueue[int]()
	ref := make([]int, n)
	for i := range ref {
		ref[i] = vOrd("x")
		q.Add(ref[i])
	}
	lst.At(0).Add(ref...)
	k := vInt("k")
	vCover("mlink-far-offsets")
	if k < 0 {
		p1, _ := vPanics(func() { lst.Peek(k) })
		p2, _ := vPanics(func() { lst.At(k) })
		p3, _ := vPanics(func() { q.Peek(k) })
		vAssert(p1 && p2 && p3, "Peek(k) and At(k) panic for k < 0, however far")
		return
	}
	v, ok := lst.Peek(k)
	vAssert(ok == (k < n), "List.Peek(k) ok iff k < Len, for every k")
	vAssert(vImplies(!ok, v == 0), "List.Peek past the end is zero")
	vAssert(lst.At(k).AtEnd() == (k >= n), "List.At(k) is the end exactly for k >= Len")
	qv, qok := q.Peek(k)
	vAssert(qok == (k < n), "Queue.Peek(k) ok iff k < Len, for every k")
	for c := 0; c < n; c++ {
		vAssert(vImplies(k == c, vAll(v == ref[c], qv == ref[c])), "Peek(k) is the k-th element")
	}
}
