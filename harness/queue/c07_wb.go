package queue

// VH_queue_Step: white-box step from an arbitrary ring state (capacity c, head h, n elements).
func VH_queue_Step() {
	c := vCase("c")
	var h, n int
	if c >= 64 {
		// large buffers: a few characteristic ring positions instead of all of them
		h = []int{0, 1, c / 2, 3*c/4 + 2, c - 1}[vChoice("head", 5)]
		n = []int{0, 1, c/4 - 1, c / 4, c/4 + 1, c / 2, c - 1, c}[vChoice("n", 8)]
	} else {
		h = vChoice("head", c+1)
		n = vChoice("n", c+1)
	}
	if c == 0 {
		h = 0
	} else if h >= c {
		vAssume(false)
	}
	vs := make([]int, c)
	ref := make([]int, 0, n)
	for i := 0; i < n; i++ {
		x := vOrd("e")
		vs[(h+i)%c] = x
		ref = append(ref, x)
	}
	// (an empty queue may have its head anywhere: the property does not depend on
	// the reset-to-zero that the current code performs)
	q := &Queue[int]{vs: vs, head: h, n: n}
	op := vCase("op")
	if n == c && c > 0 && h > 0 && op <= 1 {
		vCover("full-with-head>0")
	}
	if n < c && h+n >= c && op == 0 {
		vCover("add-wraps")
	}
	if n < c && h == 0 && op == 1 {
		vCover("push-wraps-backward")
	}
	ref = vApply(q, ref, op, "step")
	vCover("stepped")
	vObserve(q, ref, "after step")
	if c < 64 {
		vPeekCheck(q, ref, c+3, "after step")
	} else if len(ref) > 0 {
		// large buffers: Peek at a few characteristic offsets instead of a symbolic one
		for _, k := range []int{0, 1, len(ref) / 2, len(ref) - 1, -1, -len(ref)} {
			if k < len(ref) && k >= -len(ref) {
				got, ok := q.Peek(k)
				j := k
				if j < 0 {
					j += len(ref)
				}
				vAssert(ok && got == ref[j], "after step: Peek at a characteristic offset of a large queue")
			}
		}
	}
	// internal consistency that later steps rely on
	vInvariant(q.n <= len(q.vs), "n <= len(buffer)")
	vInvariant(q.head >= 0 && (q.head < len(q.vs) || len(q.vs) == 0), "head within buffer")
	if c >= 64 {
		vCover("large-buffer")
		return
	}
	// one more operation from the resulting state
	op2 := vChoice("op2", 4)
	ref = vApply(q, ref, op2, "second step")
	vObserve(q, ref, "after second step")
}
