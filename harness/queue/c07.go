package queue

// C07 harnesses: ring-buffer queue vs a reference sequence.

func vObserve(q *Queue[int], ref []int, what string) {
	// a callback that uses the read-only observers on the queue it is iterating
	if len(ref) > 1 {
		i := 0
		q.Each(func(v int) bool {
			if i == 0 || i == len(ref)-1 { // (not at every element: Slice is linear)
				snap := q.Slice()
				f, _ := q.Peek(0)
				vAssert(len(snap) == len(ref) && q.Len() == len(ref) && f == ref[0], what+": observers called from inside Each see the whole queue")
			}
			vAssert(i < len(ref) && v == ref[i], what+": Each is not disturbed by observers called from its callback")
			i++
			return true
		})
		vAssert(i == len(ref), what+": Each yields every element when its callback observes the queue")
	}
	vAssert(q.Len() == len(ref), what+": Len")
	vAssert(q.IsEmpty() == (len(ref) == 0), what+": IsEmpty")
	if len(ref) > 0 {
		vAssert(q.Front() == ref[0], what+": Front is the oldest element")
	} else {
		vAssert(q.Front() == 0, what+": Front of an empty queue is zero")
	}
	s := q.Slice()
	vAssert(len(s) == len(ref), what+": Slice length")
	for i := range s {
		vAssert(s[i] == ref[i], what+": Slice contents in order")
	}
	for i := range s {
		s[i] = -12345 // the result is a copy: writing to it must not reach the queue
	}
	if len(ref) == 0 {
		vAssert(s == nil, what+": Slice of an empty queue is nil")
	}
	i := 0
	q.Each(func(v int) bool {
		vAssert(i < len(ref), what+": Each yields no more than Len elements")
		vAssert(v == ref[i], what+": Each yields the elements in order")
		i++
		return true
	})
	vAssert(i == len(ref), what+": Each yields every element")
	// early stop
	if len(ref) > 1 {
		cnt := 0
		q.Each(func(v int) bool { cnt++; return false })
		vAssert(cnt == 1, what+": Each stops when the callback returns false")
	}
}

func vPeekCheck(q *Queue[int], ref []int, bound int, what string) {
	k := vInt("k") // any offset at all, including the extreme values of int
	_ = bound
	got, ok := q.Peek(k)
	n := len(ref)
	want := vAll(k >= -n, k < n)
	vAssert(ok == want, what+": Peek(k) ok exactly for -Len <= k < Len")
	for c := -n; c < n; c++ {
		j := c
		if j < 0 {
			j += n
		}
		vAssert(vImplies(k == c, got == ref[j]), what+": Peek(k) returns the k-th element (negative from the end)")
	}
	vAssert(vImplies(!want, got == 0), what+": Peek out of range returns zero")
}

// vApply performs operation op on both the queue and the reference.
func vApply(q *Queue[int], ref []int, op int, what string) []int {
	switch op {
	case 0:
		x := vOrd("x")
		q.Add(x)
		ref = append(ref, x)
	case 1:
		x := vOrd("x")
		q.Push(x)
		ref = append([]int{x}, ref...)
	case 2:
		got, ok := q.Pop()
		vAssert(ok == (len(ref) > 0), what+": Pop reports emptiness")
		if len(ref) > 0 {
			vAssert(got == ref[0], what+": Pop returns the front")
			ref = ref[1:]
		} else {
			vAssert(got == 0, what+": Pop on empty returns zero")
		}
	case 3:
		got, ok := q.PopLast()
		vAssert(ok == (len(ref) > 0), what+": PopLast reports emptiness")
		if len(ref) > 0 {
			vAssert(got == ref[len(ref)-1], what+": PopLast returns the back")
			ref = ref[:len(ref)-1]
		} else {
			vAssert(got == 0, what+": PopLast on empty returns zero")
		}
	case 4:
		q.Clear()
		ref = nil
	}
	return ref
}

// VH_queue_History: exported API only, from the zero value, New and NewSize(m).
func VH_queue_History() {
	var q *Queue[int]
	switch vCase("ctor") {
	case 0:
		q = new(Queue[int])
	case 1:
		q = New[int]()
	default:
		q = NewSize[int](vCase("ctor") - 1)
	}
	var ref []int
	steps := vCase("steps")
	for s := 0; s < steps; s++ {
		op := vChoice("op", 5)
		ref = vApply(q, ref, op, "history")
		vObserve(q, ref, "history")
	}
	vCover("history-done")
	vPeekCheck(q, ref, steps+2, "history")
}

func VT_queue_script() {
	q := NewSize[int](3)
	var log []int
	for i := 1; i <= 9; i++ {
		q.Add(i)
		if i%3 == 0 {
			v, _ := q.Pop()
			log = append(log, v)
			q.Push(-i)
		}
		log = append(log, q.Len())
	}
	vOut("log", log)
	vOut("slice", q.Slice())
	v, ok := q.Peek(-1)
	vOut("peek", v, ok)
	v, ok = q.PopLast()
	vOut("poplast", v, ok, q.Slice())
	z := New[int]()
	for i := 0; i < 20; i++ {
		z.Add(i)
	}
	vOut("grown", z.Slice(), z.Len())
}
