package stack

// C10 (stack): LIFO vs a reference slice (top is the last element).

func vCheckStack(s *Stack[int], ref []int, what string) {
	n := len(ref)
	vAssert(s.Len() == n, what+": Len")
	vAssert(s.IsEmpty() == (n == 0), what+": IsEmpty")
	if n > 0 {
		vAssert(s.Top() == ref[n-1], what+": Top is the most recent element")
	} else {
		vAssert(s.Top() == 0, what+": Top of an empty stack is zero")
	}
	sl := s.Slice()
	vAssert(len(sl) == n, what+": Slice length")
	for i := range sl {
		vAssert(sl[i] == ref[n-1-i], what+": Slice is in LIFO order")
	}
	for i := range sl {
		sl[i] = -12345 // the result is a copy: writing to it must not reach the stack
	}
	if n == 0 {
		vAssert(sl == nil, what+": Slice of an empty stack is nil")
	}
	i := 0
	s.Each(func(v int) bool {
		vAssert(i < n && v == ref[n-1-i], what+": Each yields LIFO order")
		i++
		return true
	})
	vAssert(i == n, what+": Each yields every element")
	k := vRange("k", 0, n+1)
	got, ok := s.Peek(k)
	vAssert(ok == (k < n), what+": Peek(k) ok iff k < Len")
	for c := 0; c < n; c++ {
		vAssert(vImplies(k == c, got == ref[n-1-c]), what+": Peek(k) is the k-th from the top")
	}
	vAssert(vImplies(k >= n, got == 0), what+": Peek out of range is zero")
}

func VH_stack_History() {
	s := New[int]()
	if vCase("zero") == 1 {
		s = &Stack[int]{}
	}
	var ref []int
	for st := 0; st < vCase("steps"); st++ {
		switch vChoice("op", 4) {
		case 0:
			x := vOrd("x")
			s.Push(x)
			ref = append(ref, x)
		case 1:
			x := vOrd("x")
			s.Add(x)
			ref = append(ref, x)
		case 2:
			got, ok := s.Pop()
			vAssert(ok == (len(ref) > 0), "Pop reports emptiness")
			if len(ref) > 0 {
				vAssert(got == ref[len(ref)-1], "Pop returns the top")
				ref = ref[:len(ref)-1]
			} else {
				vAssert(got == 0, "Pop on empty returns zero")
			}
		case 3:
			s.Clear()
			ref = nil
		}
		vCheckStack(s, ref, "history")
	}
	vCover("stack-history")
	p, _ := vPanics(func() { s.Peek(-1) })
	vAssert(p, "Peek(-1) panics")
}

// VH_stack_Long: a long push run followed by a long pop run (growth and any
// shrink thresholds of the backing array), every popped value and Len checked.
func VH_stack_Long() {
	n, keep := vCase("n"), vCase("keep")
	s := New[int]()
	ref := make([]int, 0, n)
	for i := 0; i < n; i++ {
		x := vOrd("x")
		s.Push(x)
		ref = append(ref, x)
	}
	vAssert(s.Len() == n && s.Top() == ref[n-1], "after the push run")
	for len(ref) > keep {
		got, ok := s.Pop()
		vAssert(ok && got == ref[len(ref)-1], "Pop returns the top during a long drain")
		ref = ref[:len(ref)-1]
		vAssert(s.Len() == len(ref), "Len during a long drain")
	}
	vCover("stack-long")
	vCheckStack(s, ref, "after a long drain")
}

func VT_stack_script() {
	s := New[int]()
	for i := 1; i <= 5; i++ {
		s.Push(i * i)
	}
	v, ok := s.Pop()
	p, pok := s.Peek(2)
	vOut("stack", v, ok, p, pok, s.Slice(), s.Len(), s.Top())
}

// VH_stack_FarPeek: Peek for every offset in the int range.
func VH_stack_FarPeek() {
	n := vCase("n")
	s := New[int]()
	ref := make([]int, n)
	for i := range ref {
		ref[i] = vOrd("x")
		s.Push(ref[i])
	}
	k := vInt("k")
	vCover("stack-far-peek")
	if k < 0 {
		panicked, _ := vPanics(func() { s.Peek(k) })
		vAssert(panicked, "Peek(k) panics for k < 0, however far")
		return
	}
	got, ok := s.Peek(k)
	vAssert(ok == (k < n), "Peek(k) ok iff k < Len, for every k")
	for c := 0; c < n; c++ {
		vAssert(vImplies(k == c, got == ref[n-1-c]), "Peek(k) is the k-th from the top")
	}
	vAssert(vImplies(k >= n, got == 0), "Peek out of range is zero")
}
