package distinct

import (
	"github.com/creachadair/mds/mapset"
)

// C19: every random outcome is a solver variable (the counter's source hands out
// symbolic words; after maxDraws words it hands out zeros, which evict everything,
// so that every path is finite).

type vSrc struct {
	draws    int
	maxDraws int
	last     uint64
}

func (s *vSrc) Uint64() uint64 {
	s.draws++
	if s.draws > s.maxDraws {
		s.last = 0
		return 0
	}
	s.last = vUint64("rnd")
	return s.last
}

func vNewCounter(size, maxDraws int) (*Counter[int], *vSrc) {
	src := &vSrc{maxDraws: maxDraws}
	c := NewCounter[int](size) // the package's own constructor; only the random source is replaced
	c.rng = src
	return c, src
}

var _ mapset.Set[int]

func vDistinct(seen []int, v int) []int {
	for _, s := range seen {
		if s == v {
			return seen
		}
	}
	return append(append([]int{}, seen...), v)
}

// vLog2Ratio returns k with count == n<<k (n > 0).
func vLog2Ratio(count uint64, n int) (int, bool) {
	if n <= 0 {
		return 0, false
	}
	for k := 0; k < 64; k++ {
		if uint64(n)<<uint(k) == count && (uint64(n)<<uint(k))>>uint(k) == uint64(n) {
			return k, true
		}
	}
	return 0, false
}

// VH_distinct_StreamBB: the stream harness restricted to what the exported API
// shows (Len, Count) plus the number of random words consumed; only the random
// source is plugged in. It keeps deciding when the counter's representation is
// refactored and the white-box harnesses no longer compile.
func VH_distinct_StreamBB() {
	size := vCase("size")
	c, src := vNewCounter(size, vCase("draws"))
	var seen []int
	k, kKnown := 0, true
	for i := 0; i < vCase("adds"); i++ {
		v := vOrd("v")
		seen = vDistinct(seen, v)
		d0 := src.draws
		c.Add(v)
		vAssert(c.Len() <= size, "Len never exceeds the buffer size")
		vAssert(c.Len() <= len(seen), "no more values are buffered than distinct values were added")
		if c.Len() == 0 {
			vAssert(c.Count() == 0, "an empty buffer estimates zero")
			kKnown = false
		} else {
			k2, ok := vLog2Ratio(c.Count(), c.Len())
			vAssert(ok, "Count is Len times a power of two")
			if kKnown {
				vAssert(k2 >= k, "the power of two never decreases")
			}
			k, kKnown = k2, true
		}
		if src.draws == 0 {
			vCover("exact-bb")
			vAssert(int(c.Count()) == len(seen) && c.Len() == len(seen), "Count is exact while no randomness has been consumed")
		} else {
			vCover("sampling-bb")
			if d0 > 0 {
				vAssert(src.draws > d0, "above capacity every Add consumes a draw")
			}
		}
		if len(seen) < size {
			vAssert(src.draws == 0, "no randomness is consumed before the buffer fills")
		}
	}
	vCover("stream-bb-done")
	c.Reset()
	c.rng = src
	vAssert(c.Len() == 0 && c.Count() == 0, "Reset empties the counter")
	if size < 1 {
		return // a buffer of size zero has no exact regime
	}
	d0 := src.draws
	for i := 0; i < size-1; i++ {
		c.Add(1000 + i)
		c.Add(1000 + i)
	}
	vAssert(int(c.Count()) == size-1 && src.draws == d0, "after Reset the counter is exact again")
}

// vSrcBig hands out words that keep almost everything: the low three bits of
// the first word are solver variables, every later word evicts exactly one of
// its 64 elements (so that every pass makes progress and the run is finite).
type vSrcBig struct {
	draws int
}

func (s *vSrcBig) Uint64() uint64 {
	s.draws++
	if s.draws == 1 {
		return vUint64("rnd") | ^uint64(7)
	}
	return ^uint64(1)
}

// VH_distinct_Big: buffers at and beyond plausible internal thresholds (64-bit
// word boundary, 1024, 2048): fill to one below capacity (exact), trigger one
// pass that keeps almost everything, then Reset and reuse.
func VH_distinct_Big() {
	size := vCase("size")
	src := &vSrcBig{}
	c := NewCounter[int](size)
	c.rng = src
	for i := 0; i < size-1; i++ {
		c.Add(i)
	}
	vAssert(c.Len() == size-1 && int(c.Count()) == size-1 && src.draws == 0, "filling below capacity is exact")
	c.Add(size - 1)
	m := size // number of elements exposed to the first pass
	if c.Len() == size && int(c.Count()) == size && src.draws == 0 {
		// the implementation may make room only when the next element arrives
		c.Add(size)
		m = size + 1
	}
	vCover("bigpass")
	vAssert(c.Len() <= size, "Len never exceeds the buffer size")
	if c.Len() == 0 {
		// only the three solver-chosen coins can evict more than one element per word
		vAssert(size <= 3 && c.Count() == 0, "a pass that keeps almost every element leaves the buffer non-empty")
		return
	}
	k, ok := vLog2Ratio(c.Count(), c.Len())
	vAssert(ok, "Count is Len times a power of two")
	vAssert(k >= 1, "a pass halves the probability")
	if k == 1 {
		// one pass over `size` elements consumes exactly ceil(size/64) words and
		// each word but the first evicted one element
		words := (m + 63) / 64
		vInvariant(src.draws == words, "coin accounting assumed by the structural obligations: a pass draws one word per 64 buffered elements")
		vInvariant(c.Len() <= m-(words-1) && c.Len() >= m-(words-1)-3, "coin accounting assumed by the structural obligations: each element's survival is decided by its own bit")
	}
	c.Reset()
	c.rng = src
	vAssert(c.Len() == 0 && c.Count() == 0, "Reset empties the counter")
	d0 := src.draws
	for i := 0; i < size-1; i++ {
		c.Add(5000 + i)
	}
	c.Add(5000)
	vAssert(int(c.Count()) == size-1 && c.Len() == size-1 && src.draws == d0, "after Reset the counter is exact again")
}

func VT_distinct_exact() {
	c := NewCounter[int](8)
	var cs []int
	for _, v := range []int{5, 3, 5, 9, 3, 1, 1, 7} {
		c.Add(v)
		cs = append(cs, int(c.Count()), c.Len())
	}
	vOut("exact", cs)
	c.Reset()
	vOut("reset", c.Len(), int(c.Count()))
}
