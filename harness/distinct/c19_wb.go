package distinct

import "math"

// C19, white-box part (reads the counter's probability threshold and buffer).

// vK returns k with p == MaxUint64 >> k, asserting p has that form.
func vK(p uint64) int {
	k := 0
	for q := uint64(math.MaxUint64); q != p && k <= 64; q >>= 1 {
		k++
	}
	vAssert(k <= 64, "sampling probability is MaxUint64 >> k for some k")
	return k
}

func VH_distinct_Stream() {
	size := vCase("size")
	c, src := vNewCounter(size, vCase("draws"))
	var seen []int
	k := 0
	for i := 0; i < vCase("adds"); i++ {
		v := vOrd("v")
		seen = vDistinct(seen, v)
		pBefore := c.p
		lenBefore := c.Len()
		hadBefore := c.buf.Has(v)
		d0 := src.draws
		c.Add(v)
		vAssert(c.Len() <= size, "Len never exceeds the buffer size")
		k2 := vK(c.p)
		vAssert(k2 >= k, "the power of two never decreases")
		k = k2
		vAssert(c.Count() == uint64(c.Len())<<uint(k), "Count is Len times 2^k")
		if k == 0 {
			// exact regime: no eviction pass has happened yet
			vCover("exact")
			vAssert(src.draws == 0, "no randomness consumed in the exact regime")
			vAssert(int(c.Count()) == len(seen), "Count is exact while fewer distinct values than the buffer size were added")
		} else {
			vCover("sampling")
		}
		// above capacity every Add rolls for admission
		if pBefore < math.MaxUint64 {
			vAssert(src.draws > d0, "above capacity every Add consumes a draw")
		}
		// admission coin: with p < Max the first draw decides; rejected values are evicted
		if pBefore < math.MaxUint64 && src.draws > d0 && c.p == pBefore {
			vCover("coin")
			vAssert(src.draws == d0+1, "one draw per Add when no eviction pass runs")
			vAssert(c.buf.Has(v) == (src.last < pBefore), "a value is kept exactly when its draw is below p")
			if !c.buf.Has(v) && hadBefore {
				vAssert(c.Len() == lenBefore-1, "a rejected re-add evicts the value")
			}
		}
	}
	vCover("stream-done")
	// Reset restores the exact regime
	c.Reset()
	c.rng = src // (Reset may legitimately rebuild the counter; keep the symbolic source installed)
	vAssert(c.Len() == 0 && c.Count() == 0, "Reset empties the counter")
	vAssert(vK(c.p) == 0, "Reset restores probability one")
	d0 := src.draws
	for i := 0; i < size-1; i++ {
		c.Add(1000 + i)
		c.Add(1000 + i)
	}
	vAssert(int(c.Count()) == size-1 && src.draws == d0, "after Reset the counter is exact again")
}

// VH_distinct_Pass: one eviction pass from a full buffer: each buffered element
// survives exactly when its own bit of the drawn word is set.
func VH_distinct_Pass() {
	size := vCase("size")
	c, src := vNewCounter(size, 2)
	for i := 0; i < size-1; i++ {
		c.Add(i + 1)
	}
	vAssert(c.Len() == size-1 && src.draws == 0, "filling below capacity is exact")
	c.Add(size) // fills the buffer
	m := size   // number of elements exposed to the pass
	if vK(c.p) == 0 {
		// the implementation may make room only when the next element arrives:
		// then that element takes part in the pass as well
		vAssert(c.Len() == size && src.draws == 0, "a buffer that was just filled and not yet thinned is exact")
		c.Add(size + 1)
		m = size + 1
	}
	w := src.last
	vCover("pass")
	vAssert(vK(c.p) >= 1, "a pass halves the probability")
	// one 64-bit word carries a coin for each of up to 64 buffered elements; a
	// second draw can only belong to a second pass (the first removed nothing)
	vInvariant(src.draws == 1 || vK(c.p) >= 2, "coin accounting assumed by the structural obligations: one drawn word decides a whole pass over at most 64 elements")
	if src.draws == 1 {
		// survivors = number of one bits among the low m bits (whatever the iteration order)
		ones := 0
		for b := 0; b < m; b++ {
			ones += vIte(w>>uint(b)&1 == 1, 1, 0)
		}
		vInvariant(c.Len() == ones, "coin accounting assumed by the structural obligations: each element's survival is decided by its own bit of the drawn word")
	}
}
