package mdiff

import (
	"bytes"
	"strings"
)

// Concrete witnesses of known findings in the text formats (public API only).

// VF_F5: ReadUnified reads an omitted count ("@@ -2 +2 @@") as 0 instead of 1.
func VF_F5() {
	p, err := ReadUnified(strings.NewReader("@@ -2 +2 @@\n-a\n+b\n"))
	vAssert(err == nil && len(p.Chunks) == 1, "F5: hunk parsed")
	c := p.Chunks[0]
	vAssert(c.LEnd-c.LStart == 1 && c.REnd-c.RStart == 1, "F5: an omitted count in a unified range means one line")
}

// VF_F6: an empty range at line L is spelled "L,0" (unified) / "L,L-1" (context);
// GNU diff spells the line that precedes the range: "L-1,0" / "L-1".
func VF_F6() {
	d := New([]string{"a"}, []string{"a", "b"}) // pure insertion after line 1
	var u, c bytes.Buffer
	Unified(&u, d.Chunks, nil)
	Context(&c, d.Chunks, nil)
	vAssert(strings.HasPrefix(u.String(), "@@ -1,0 +2 @@\n"), "F6: unified empty range names the preceding line")
	vAssert(strings.Contains(c.String(), "*** 1 ****\n"), "F6: context empty range names the preceding line")
}
