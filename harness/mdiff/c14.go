package mdiff

import (
	"bytes"
	"strings"
	"time"

	"github.com/creachadair/mds/slice"
)

// C14: text formats round-trip and mean what the published format rules say.

// Known-finding modes. They are switched on only by the neutralising overlay of
// an *open* entry of /verif/known_findings.json whose witness (VF_F5, VF_F6)
// still fails on the tree under check; the oracles below then accept, besides
// the published behaviour, exactly the recorded deviation and nothing else.
const vKnownF5 = false // ReadUnified reads an omitted count as 0
const vKnownF6 = false // empty ranges at line L are spelled "L,0" / "L,L-1"

func vMkDiffLines(n int, name string) []string {
	out := make([]string, n)
	for i := range out {
		b := vByte(name)
		vAssume(b != '\n')
		out[i] = string([]byte{b})
	}
	return out
}

func vMkDiff() (*Diff, []string, []string) {
	l, r := vMkDiffLines(vCase("nl"), "l"), vMkDiffLines(vCase("nr"), "r")
	d := New(l, r)
	if n := vCase("ctx"); n >= 0 {
		d.AddContext(n).Unify()
	}
	return d, l, r
}

func vSameChunks(a, b []*Chunk, splitReplace bool) bool {
	if len(a) != len(b) {
		return false
	}
	for i := range a {
		x, y := a[i], b[i]
		if x.LStart != y.LStart || x.LEnd != y.LEnd || x.RStart != y.RStart || x.REnd != y.REnd {
			return false
		}
		// compare edits, letting a Replace come back as Drop+Copy
		var ex []Edit
		for _, e := range x.Edits {
			if e.Op == slice.OpReplace && splitReplace {
				ex = append(ex, Edit{Op: slice.OpDrop, X: e.X}, Edit{Op: slice.OpCopy, Y: e.Y})
			} else {
				ex = append(ex, e)
			}
		}
		if len(ex) != len(y.Edits) {
			return false
		}
		for j := range ex {
			if ex[j].Op != y.Edits[j].Op || !vSameLines(ex[j].X, y.Edits[j].X) || !vSameLines(ex[j].Y, y.Edits[j].Y) {
				return false
			}
		}
	}
	return true
}

// ---------- reference appliers, written from the GNU diffutils format descriptions ----------

type vLines struct {
	ls  [][]byte
	pos int
}

func vSplitLines(text []byte) *vLines {
	var out [][]byte
	start := 0
	for i := 0; i < len(text); i++ {
		if text[i] == '\n' {
			out = append(out, text[start:i])
			start = i + 1
		}
	}
	if start < len(text) {
		out = append(out, text[start:])
	}
	return &vLines{ls: out}
}

func (v *vLines) next() ([]byte, bool) {
	if v.pos >= len(v.ls) {
		return nil, false
	}
	v.pos++
	return v.ls[v.pos-1], true
}

// vNum parses decimal digits at b[i:]; returns value and next index (ok=false if no digit).
func vNum(b []byte, i int) (int, int, bool) {
	j := i
	v := 0
	for j < len(b) && b[j] >= '0' && b[j] <= '9' {
		v = v*10 + int(b[j]-'0')
		j++
	}
	return v, j, j > i
}

// vRange parses "a" or "a,b".
func vRangeAt(b []byte, i int) (lo, hi int, has2 bool, next int, ok bool) {
	lo, j, ok := vNum(b, i)
	if !ok {
		return 0, 0, false, i, false
	}
	if j < len(b) && b[j] == ',' {
		hi, k, ok2 := vNum(b, j+1)
		if !ok2 {
			return 0, 0, false, i, false
		}
		return lo, hi, true, k, true
	}
	return lo, lo, false, j, true
}

func vHasPrefix(b []byte, p string) bool {
	if len(b) < len(p) {
		return false
	}
	return string(b[:len(p)]) == p
}

func vLineIs(b []byte, s string) bool { return string(b) == s }

// vApplyNormal interprets a normal-format diff (ed-style a/c/d commands).
func vApplyNormal(text []byte, left []string) ([]string, bool) {
	in := vSplitLines(text)
	var out []string
	lpos := 0
	for {
		cmdl, ok := in.next()
		if !ok {
			break
		}
		l1, l2, _, i, ok := vRangeAt(cmdl, 0)
		if !ok || i >= len(cmdl) {
			return nil, false
		}
		cmd := cmdl[i]
		r1, r2, _, j, ok := vRangeAt(cmdl, i+1)
		if !ok || j != len(cmdl) {
			return nil, false
		}
		switch cmd {
		case 'a': // lines r1..r2 of the new file are added after line l1 of the old
			if l1 < lpos || l1 > len(left) {
				return nil, false
			}
			for ; lpos < l1; lpos++ {
				out = append(out, left[lpos])
			}
			if r1 != len(out)+1 {
				return nil, false
			}
			for k := r1; k <= r2; k++ {
				ln, ok := in.next()
				if !ok || !vHasPrefix(ln, "> ") {
					return nil, false
				}
				out = append(out, string(ln[2:]))
			}
		case 'd', 'c':
			if l1-1 < lpos || l2 > len(left) || l2 < l1 {
				return nil, false
			}
			for ; lpos < l1-1; lpos++ {
				out = append(out, left[lpos])
			}
			for k := l1; k <= l2; k++ {
				ln, ok := in.next()
				if !ok || !vHasPrefix(ln, "< ") || string(ln[2:]) != left[k-1] {
					return nil, false
				}
			}
			lpos = l2
			if cmd == 'd' {
				if r1 != len(out) {
					return nil, false // "would appear after line r1 of the new file"
				}
			} else {
				sep, ok := in.next()
				if !ok || !vLineIs(sep, "---") {
					return nil, false
				}
				if r1 != len(out)+1 {
					return nil, false
				}
				for k := r1; k <= r2; k++ {
					ln, ok := in.next()
					if !ok || !vHasPrefix(ln, "> ") {
						return nil, false
					}
					out = append(out, string(ln[2:]))
				}
			}
		default:
			return nil, false
		}
	}
	for ; lpos < len(left); lpos++ {
		out = append(out, left[lpos])
	}
	return out, true
}

// vUniRange parses a unified range "l" or "l,s" after the sign: omitted count means 1.
func vUniRange(b []byte) (start, count int, ok bool) {
	lo, hi, has2, j, ok := vRangeAt(b, 1)
	if !ok || j != len(b) {
		return 0, 0, false
	}
	if !has2 {
		return lo, 1, true
	}
	return lo, hi, true
}

// vApplyUnified interprets unified-format hunks; an empty range names the preceding line.
func vApplyUnified(text []byte, left []string) ([]string, bool) {
	in := vSplitLines(text)
	var out []string
	lpos := 0
	first := true
	for {
		h, ok := in.next()
		if !ok {
			break
		}
		if first && vHasPrefix(h, "--- ") {
			p, ok := in.next()
			if !ok || !vHasPrefix(p, "+++ ") {
				return nil, false
			}
			first = false
			continue
		}
		first = false
		// "@@ -l,s +l,s @@"
		if !vHasPrefix(h, "@@ -") || len(h) < 7 || string(h[len(h)-3:]) != " @@" {
			return nil, false
		}
		body := h[3 : len(h)-3]
		sp := -1
		for i := range body {
			if body[i] == ' ' {
				sp = i
			}
		}
		if sp < 0 || body[sp+1] != '+' {
			return nil, false
		}
		ls, lc, ok1 := vUniRange(body[:sp])
		rs, rc, ok2 := vUniRange(body[sp+1:])
		if !ok1 || !ok2 {
			return nil, false
		}
		start := ls - 1
		if lc == 0 {
			start = ls // empty range: the hunk sits after line ls
			if vKnownF6 && rc > 0 && lpos+(rs-1-len(out)) == ls-1 {
				start = ls - 1 // recorded deviation: the range names the line after the gap
			}
		}
		if start < lpos || start+lc > len(left) {
			return nil, false
		}
		for ; lpos < start; lpos++ {
			out = append(out, left[lpos])
		}
		if rc == 0 {
			if rs != len(out) && !(vKnownF6 && rs == len(out)+1) {
				return nil, false
			}
		} else if rs != len(out)+1 {
			return nil, false
		}
		nl, nr := 0, 0
		for nl < lc || nr < rc {
			ln, ok := in.next()
			if !ok || len(ln) == 0 {
				return nil, false
			}
			switch ln[0] {
			case ' ':
				if lpos >= len(left) || string(ln[1:]) != left[lpos] {
					return nil, false
				}
				out = append(out, left[lpos])
				lpos++
				nl++
				nr++
			case '-':
				if lpos >= len(left) || string(ln[1:]) != left[lpos] {
					return nil, false
				}
				lpos++
				nl++
			case '+':
				out = append(out, string(ln[1:]))
				nr++
			default:
				return nil, false
			}
		}
		if nl != lc || nr != rc {
			return nil, false
		}
	}
	for ; lpos < len(left); lpos++ {
		out = append(out, left[lpos])
	}
	return out, true
}

// vCtxRange parses "*** l[,e] ****" / "--- l[,e] ----" bodies; n is the number of lines in
// the section: n == 0 -> a single number naming the preceding line; n == 1 -> a single
// number; n > 1 -> "l,e" with e-l+1 == n. Returns the 0-based start index.
func vCtxRange(b []byte, n int) (int, bool) {
	lo, hi, has2, j, ok := vRangeAt(b, 0)
	if !ok || j != len(b) {
		return 0, false
	}
	switch {
	case n == 0:
		if vKnownF6 && has2 && hi == lo-1 {
			return lo - 1, true // recorded deviation: "L,L-1"
		}
		return lo, !has2
	case n == 1:
		return lo - 1, !has2
	default:
		return lo - 1, has2 && hi-lo+1 == n
	}
}

// vApplyContext interprets context-format hunks.
func vApplyContext(text []byte, left []string) ([]string, bool) {
	in := vSplitLines(text)
	var out []string
	lpos := 0
	first := true
	for {
		h, ok := in.next()
		if !ok {
			break
		}
		if first && vHasPrefix(h, "*** ") && !vLineIs(h, "***************") {
			p, ok := in.next()
			if !ok || !vHasPrefix(p, "--- ") {
				return nil, false
			}
			first = false
			continue
		}
		first = false
		if !vLineIs(h, "***************") {
			return nil, false
		}
		fh, ok := in.next()
		if !ok || !vHasPrefix(fh, "*** ") || len(fh) < 10 || string(fh[len(fh)-5:]) != " ****" {
			return nil, false
		}
		// from-section lines until the "--- ... ----" header
		var from [][]byte
		var th []byte
		for {
			ln, ok := in.next()
			if !ok {
				return nil, false
			}
			if vHasPrefix(ln, "--- ") && len(ln) >= 9 && string(ln[len(ln)-5:]) == " ----" && !(vHasPrefix(ln, "- ")) {
				th = ln
				break
			}
			if !(vHasPrefix(ln, "  ") || vHasPrefix(ln, "- ") || vHasPrefix(ln, "! ")) {
				return nil, false
			}
			from = append(from, ln)
		}
		// to-section lines until the next hunk or end
		var to [][]byte
		for in.pos < len(in.ls) && !vLineIs(in.ls[in.pos], "***************") {
			ln, _ := in.next()
			if !(vHasPrefix(ln, "  ") || vHasPrefix(ln, "+ ") || vHasPrefix(ln, "! ")) {
				return nil, false
			}
			to = append(to, ln)
		}
		// an omitted section consists of the other section's context lines
		if len(from) == 0 {
			for _, ln := range to {
				if vHasPrefix(ln, "  ") {
					from = append(from, ln)
				}
			}
		}
		if len(to) == 0 {
			for _, ln := range from {
				if vHasPrefix(ln, "  ") {
					to = append(to, ln)
				}
			}
		}
		fstart, ok1 := vCtxRange(fh[4:len(fh)-5], len(from))
		tstart, ok2 := vCtxRange(th[4:len(th)-5], len(to))
		if !ok1 || !ok2 || fstart < lpos || fstart+len(from) > len(left) {
			return nil, false
		}
		for ; lpos < fstart; lpos++ {
			out = append(out, left[lpos])
		}
		if tstart != len(out) {
			return nil, false
		}
		for _, ln := range from {
			if string(ln[2:]) != left[lpos] {
				return nil, false
			}
			lpos++
		}
		for _, ln := range to {
			out = append(out, string(ln[2:]))
		}
	}
	for ; lpos < len(left); lpos++ {
		out = append(out, left[lpos])
	}
	return out, true
}

// ---------- harnesses ----------

// vF5Affects reports whether the recorded deviation F5 is switched on and
// applies to these chunks (some side of some chunk is exactly one line, which
// Unified writes without a count).
func vF5Affects(chunks []*Chunk) bool {
	if !vKnownF5 {
		return false
	}
	for _, c := range chunks {
		if c.LEnd-c.LStart == 1 || c.REnd-c.RStart == 1 {
			return true
		}
	}
	return false
}

// vSameParsedUnified: got is what ReadUnified returned for the text Unified
// wrote for want.
func vSameParsedUnified(want, got []*Chunk) bool {
	if !vF5Affects(want) {
		return vSameChunks(want, got, true)
	}
	// recorded deviation F5: a one-line side comes back as an empty range
	adj := make([]*Chunk, len(want))
	for i, c := range want {
		cc := *c
		if cc.LEnd-cc.LStart == 1 {
			cc.LEnd = cc.LStart
		}
		if cc.REnd-cc.RStart == 1 {
			cc.REnd = cc.RStart
		}
		adj[i] = &cc
	}
	return vSameChunks(adj, got, true)
}

func vFormat(f FormatFunc, chunks []*Chunk, fi *FileInfo) []byte {
	var buf bytes.Buffer
	err := f(&buf, chunks, fi)
	vAssert(err == nil, "formatter reports no error")
	return buf.Bytes()
}

// VH_mdiff_Meaning: each rendering, applied to Left by the published rules, yields Right.
func VH_mdiff_Meaning() {
	d, l, r := vMkDiff()
	var fi *FileInfo
	if vCase("hdr") == 1 {
		fi = &FileInfo{Left: "old", Right: "new"}
	}
	switch vCase("fmt") {
	case 0:
		text := vFormat(Normal, d.Chunks, fi)
		got, ok := vApplyNormal(text, l)
		vCover("normal-applied")
		vAssert(ok, "Normal output is a well-formed normal diff that applies to Left")
		vAssert(ok && vSameLines(got, r), "Normal output applied to Left yields Right")
	case 1:
		text := vFormat(Unified, d.Chunks, fi)
		got, ok := vApplyUnified(text, l)
		vCover("unified-applied")
		vAssert(ok, "Unified output is a well-formed unified diff that applies to Left")
		vAssert(ok && vSameLines(got, r), "Unified output applied to Left yields Right")
	case 2:
		text := vFormat(Context, d.Chunks, fi)
		got, ok := vApplyContext(text, l)
		vCover("context-applied")
		vAssert(ok, "Context output is a well-formed context diff that applies to Left")
		vAssert(ok && vSameLines(got, r), "Context output applied to Left yields Right")
	}
}

// VH_mdiff_RoundTrip: formatter output parses back to the same changes and re-formats identically.
func VH_mdiff_RoundTrip() {
	d, _, _ := vMkDiff()
	switch vCase("fmt") {
	case 0:
		text := vFormat(Normal, d.Chunks, nil)
		p, err := Read(bytes.NewReader(text))
		vCover("normal-read")
		vAssert(err == nil, "Read accepts Normal output")
		if err != nil {
			return
		}
		// one chunk per change command, same ranges
		var want []*Chunk
		for _, c := range d.Chunks {
			lpos, rpos := c.LStart, c.RStart
			for _, e := range c.Edits {
				switch e.Op {
				case slice.OpEmit:
					lpos += len(e.X)
					rpos += len(e.X)
				case slice.OpDrop:
					want = append(want, &Chunk{Edits: []Edit{e}, LStart: lpos, LEnd: lpos + len(e.X), RStart: rpos, REnd: rpos})
					lpos += len(e.X)
				case slice.OpCopy:
					want = append(want, &Chunk{Edits: []Edit{e}, LStart: lpos, LEnd: lpos, RStart: rpos, REnd: rpos + len(e.Y)})
					rpos += len(e.Y)
				case slice.OpReplace:
					want = append(want, &Chunk{Edits: []Edit{e}, LStart: lpos, LEnd: lpos + len(e.X), RStart: rpos, REnd: rpos + len(e.Y)})
					lpos += len(e.X)
					rpos += len(e.Y)
				}
			}
		}
		vAssert(vSameChunks(want, p.Chunks, false), "Read returns one chunk per change command with the same ranges and lines")
		again := vFormat(Normal, p.Chunks, nil)
		vAssert(string(again) == string(text), "re-formatting the parsed normal diff reproduces the text")
	case 1:
		var fi *FileInfo
		if vCase("hdr") == 1 {
			a, b := vByte("name"), vByte("name")
			vAssume(vAll(a != '\n', a != '\t', b != '\n', b != '\t'))
			fi = &FileInfo{Left: string([]byte{a}), Right: string([]byte{b, 'x'})}
		}
		text := vFormat(Unified, d.Chunks, fi)
		if len(d.Chunks) == 0 {
			vAssert(len(text) == 0, "an empty diff renders as nothing")
			return
		}
		p, err := ReadUnified(bytes.NewReader(text))
		vCover("unified-read")
		vAssert(err == nil, "ReadUnified accepts Unified output")
		if err != nil {
			return
		}
		vAssert(vSameParsedUnified(d.Chunks, p.Chunks), "ReadUnified returns the same chunks (ranges and edits)")
		if fi != nil {
			vAssert(p.FileInfo != nil && p.FileInfo.Left == fi.Left && p.FileInfo.Right == fi.Right, "header file names survive")
		} else {
			vAssert(p.FileInfo == nil, "no header, no FileInfo")
		}
		if !vF5Affects(d.Chunks) {
			again := vFormat(Unified, p.Chunks, p.FileInfo)
			vAssert(string(again) == string(text), "re-formatting the parsed unified diff reproduces the text")
		}
	}
}

// VH_mdiff_Git: git-style wrapper lines around unified text; two files in one stream.
func VH_mdiff_Git() {
	d, _, _ := vMkDiff()
	if len(d.Chunks) == 0 {
		return
	}
	fi := &FileInfo{Left: "a/f", Right: "b/f"}
	text := vFormat(Unified, d.Chunks, fi)
	d2 := New([]string{"p", "q"}, []string{"p", "z", "q"})
	fi2 := &FileInfo{Left: "a/g", Right: "b/g"}
	text2 := vFormat(Unified, d2.Chunks, fi2)
	var buf bytes.Buffer
	buf.WriteString("diff --git a/f b/f\nindex 123..456 100644\n")
	buf.Write(text)
	buf.WriteString("diff --git a/g b/g\nindex 789..abc 100644\n")
	buf.Write(text2)
	ps, err := ReadGitPatch(strings.NewReader(buf.String()))
	vCover("git-read")
	vAssert(err == nil, "ReadGitPatch accepts git-style wrappers")
	if err != nil {
		return
	}
	vAssert(len(ps) == 2, "ReadGitPatch returns one patch per file")
	if len(ps) == 2 {
		vAssert(vSameParsedUnified(d.Chunks, ps[0].Chunks), "first patch has the first file's chunks")
		vAssert(vSameParsedUnified(d2.Chunks, ps[1].Chunks), "second patch has the second file's chunks")
		vAssert(ps[0].FileInfo.Left == "a/f" && ps[1].FileInfo.Right == "b/g", "git patches keep their file names")
		if !vF5Affects(d.Chunks) {
			vAssert(string(vFormat(Unified, ps[0].Chunks, ps[0].FileInfo)) == string(text), "re-formatting the first git patch reproduces its unified text")
		}
	}
}

// VH_mdiff_Times: header timestamps in the default format survive a round trip
// (instant, zone offset and the rendered text), for the unified reader and the
// git wrapper reader.
func VH_mdiff_Times() {
	loc := time.UTC
	switch vCase("zone") {
	case 1:
		loc = time.FixedZone("", -7*3600)
	case 2:
		loc = time.FixedZone("", 5*3600+1800)
	}
	var lt, rt time.Time
	switch vCase("when") {
	case 0:
		lt = time.Date(2024, 2, 29, 23, 59, 58, 123456000, loc)
		rt = time.Date(1999, 12, 31, 0, 0, 1, 0, loc)
	case 1:
		lt = time.Date(1970, 1, 1, 0, 0, 0, 0, loc)
		rt = time.Date(2038, 1, 19, 3, 14, 8, 999999000, loc)
	}
	// a two-line change on both sides (no omitted count, no empty range)
	d := New([]string{"a", "b", "c", "d"}, []string{"a", "x", "y", "d"})
	fi := &FileInfo{Left: "old", Right: "new", LeftTime: lt, RightTime: rt}
	text := vFormat(Unified, d.Chunks, fi)
	p, err := ReadUnified(bytes.NewReader(text))
	vCover("times-read")
	vAssert(err == nil && p.FileInfo != nil, "ReadUnified accepts a header with timestamps")
	if err != nil || p.FileInfo == nil {
		return
	}
	vAssert(p.FileInfo.Left == "old" && p.FileInfo.Right == "new", "header file names survive next to timestamps")
	vAssert(p.FileInfo.LeftTime.Equal(lt) && p.FileInfo.RightTime.Equal(rt), "header timestamps denote the same instants")
	_, lo := p.FileInfo.LeftTime.Zone()
	_, wo := lt.Zone()
	vAssert(lo == wo, "header timestamps keep their zone offset")
	again := vFormat(Unified, p.Chunks, p.FileInfo)
	vAssert(string(again) == string(text), "re-formatting a parsed diff with timestamps reproduces the text")
	ctx := vFormat(Context, d.Chunks, fi)
	ctx2 := vFormat(Context, d.Chunks, p.FileInfo)
	vAssert(string(ctx) == string(ctx2), "the context header renders the parsed timestamps identically")
}

// VH_mdiff_LongLine: a line longer than any internal buffer of the readers
// round-trips through the unified and normal formats.
func VH_mdiff_LongLine() {
	n := vCase("n")
	b := make([]byte, n)
	for i := range b {
		b[i] = 'x'
	}
	b[n/2] = vByte("mid")
	vAssume(b[n/2] != '\n')
	long := string(b)
	l := []string{"a", long, "c"}
	r := []string{"a", "b", long + "y", "c"}
	d := New(l, r)
	text := vFormat(Unified, d.Chunks, nil)
	got, ok := vApplyUnified(text, l)
	vAssert(ok && vSameLines(got, r), "Unified output with a long line applies")
	p, err := ReadUnified(bytes.NewReader(text))
	vCover("long-line")
	vAssert(err == nil, "ReadUnified accepts a long line")
	if err == nil && !vF5Affects(d.Chunks) {
		vAssert(string(vFormat(Unified, p.Chunks, p.FileInfo)) == string(text), "a long line round-trips through the unified format")
	}
	nt := vFormat(Normal, d.Chunks, nil)
	q, err := Read(bytes.NewReader(nt))
	vAssert(err == nil, "Read accepts a long line")
	if err == nil {
		vAssert(string(vFormat(Normal, q.Chunks, nil)) == string(nt), "a long line round-trips through the normal format")
	}
}

func VT_mdiff_formats() {
	l := []string{"a", "b", "c", "d", "e", "f"}
	r := []string{"a", "x", "y", "c", "q", "d", "f", "g"}
	for _, n := range []int{0, 1, 3} {
		d := New(l, r).AddContext(n).Unify()
		fi := &FileInfo{Left: "old", Right: "new"}
		vOut("normal", n, string(vFormat(Normal, d.Chunks, nil)))
		vOut("unified", n, string(vFormat(Unified, d.Chunks, fi)))
		vOut("context", n, string(vFormat(Context, d.Chunks, fi)))
		p, err := ReadUnified(strings.NewReader(string(vFormat(Unified, d.Chunks, fi))))
		vOut("readu", err == nil, len(p.Chunks), p.FileInfo.Left)
		q, err := Read(strings.NewReader(string(vFormat(Normal, d.Chunks, nil))))
		vOut("readn", err == nil, len(q.Chunks))
	}
}
