package mdiff

import "github.com/creachadair/mds/slice"

// C13: chunks always describe a correct patch from Left to Right.

// vLineBytes is the length of the symbolic lines vMkLines builds (1 unless an
// entry sets it).
var vLineBytes = 1

func vMkLines(n int, name string) []string {
	out := make([]string, n)
	for i := range out {
		b := make([]byte, vLineBytes)
		for j := range b {
			b[j] = vByte(name)
		}
		out[i] = string(b)
	}
	return out
}

// vApplyEdits runs edits against left starting at line lpos (0-based); returns
// the produced lines and the number of left lines consumed; ok is false if an
// edit does not match the left side.
func vApplyEdits(es []Edit, left []string, lpos int) (out []string, consumed int, ok bool) {
	ok = true
	p := lpos
	for _, e := range es {
		switch e.Op {
		case slice.OpEmit:
			for _, x := range e.X {
				if p >= len(left) || left[p] != x {
					return out, p - lpos, false
				}
				out = append(out, x)
				p++
			}
		case slice.OpDrop:
			for _, x := range e.X {
				if p >= len(left) || left[p] != x {
					return out, p - lpos, false
				}
				p++
			}
		case slice.OpCopy:
			out = append(out, e.Y...)
		case slice.OpReplace:
			for _, x := range e.X {
				if p >= len(left) || left[p] != x {
					return out, p - lpos, false
				}
				p++
			}
			out = append(out, e.Y...)
		default:
			return out, p - lpos, false
		}
	}
	return out, p - lpos, true
}

func vSameLines(a, b []string) bool {
	if len(a) != len(b) {
		return false
	}
	for i := range a {
		if a[i] != b[i] {
			return false
		}
	}
	return true
}

// vCheckChunks: every chunk consumes exactly Left[LStart,LEnd) and produces exactly Right[RStart,REnd).
func vCheckChunks(d *Diff, what string, n int, disjoint, separated bool) {
	prevL, prevR := 0, 0
	var spliced []string
	lpos := 0
	for i, c := range d.Chunks {
		vAssert(1 <= c.LStart && c.LStart <= c.LEnd && c.LEnd <= len(d.Left)+1, what+": left range within Left")
		vAssert(1 <= c.RStart && c.RStart <= c.REnd && c.REnd <= len(d.Right)+1, what+": right range within Right")
		out, used, ok := vApplyEdits(c.Edits, d.Left, c.LStart-1)
		vAssert(ok, what+": chunk edits match the lines of Left they consume")
		vAssert(used == c.LEnd-c.LStart, what+": chunk consumes exactly [LStart,LEnd) of Left")
		vAssert(vSameLines(out, d.Right[c.RStart-1:c.REnd-1]), what+": chunk produces exactly [RStart,REnd) of Right")
		if n >= 0 && len(c.Edits) > 0 {
			if e := c.Edits[0]; e.Op == slice.OpEmit {
				vAssert(len(e.X) <= n, what+": at most n context lines before a chunk")
			}
			if e := c.Edits[len(c.Edits)-1]; e.Op == slice.OpEmit && len(c.Edits) > 1 {
				vAssert(len(e.X) <= n, what+": at most n context lines after a chunk")
			}
		}
		if disjoint {
			if i > 0 {
				vAssert(c.LStart >= prevL && c.RStart >= prevR, what+": chunks ascend and do not overlap")
				if separated {
					vAssert(c.LStart > prevL, what+": unified chunks are not adjacent")
				}
			}
			// splice: copy untouched lines, then the chunk's output
			vAssert(c.LStart-1 >= lpos, what+": chunks in order")
			if c.LStart-1 >= lpos {
				spliced = append(spliced, d.Left[lpos:c.LStart-1]...)
				spliced = append(spliced, out...)
				lpos = c.LEnd - 1
			}
		}
		prevL, prevR = c.LEnd, c.REnd
	}
	if disjoint {
		if lpos <= len(d.Left) {
			spliced = append(spliced, d.Left[lpos:]...)
		}
		vAssert(vSameLines(spliced, d.Right), what+": replacing each chunk's left range by its output turns Left into Right")
	}
}

type vEditSnap struct {
	op   slice.EditOp
	x, y []string
}

func vSnapEdits(es []Edit) []vEditSnap {
	out := make([]vEditSnap, len(es))
	for i, e := range es {
		out[i] = vEditSnap{e.Op, append([]string{}, e.X...), append([]string{}, e.Y...)}
	}
	return out
}

func vEditsUnchanged(es []Edit, snap []vEditSnap) bool {
	if len(es) != len(snap) {
		return false
	}
	for i, e := range es {
		if e.Op != snap[i].op || !vSameLines(e.X, snap[i].x) || !vSameLines(e.Y, snap[i].y) {
			return false
		}
	}
	return true
}

// VH_mdiff_ChunksWide: the same obligations for lines of several symbolic
// bytes: long enough (>= 5 bytes) that any fixed-width digest of a line must
// collide, so a comparison that looks only at a summary of the line is exposed
// if the solver can construct the collision.
func VH_mdiff_ChunksWide() {
	vLineBytes = vCase("w")
	vCover("wide-lines")
	VH_mdiff_Chunks()
}

// vAliasLines, when set by an entry, makes VH_mdiff_Chunks diff two views of
// one array of lines (Left = buf[:nl], Right = buf[off:off+nr]).
var vAliasLines = -1

// VH_mdiff_ChunksAlias: Left and Right share storage (a slice and its
// truncation, an in-place append, two windows of one buffer).
func VH_mdiff_ChunksAlias() {
	vAliasLines = vCase("off")
	vCover("alias-lines")
	VH_mdiff_Chunks()
}

func VH_mdiff_Chunks() {
	l, r := vMkLines(vCase("nl"), "l"), vMkLines(vCase("nr"), "r")
	if vAliasLines >= 0 {
		buf := vMkLines(max(vCase("nl"), vCase("nr")+vAliasLines), "b")
		l, r = buf[:vCase("nl")], buf[vAliasLines:vAliasLines+vCase("nr")]
	}
	n := vCase("ctx")
	if n == -2 {
		n = vRange("n", 0, 1<<63-1) // any context size at all
	}
	d := New(l, r)
	snap := vSnapEdits(d.Edits)
	out, used, ok := vApplyEdits(d.Edits, l, 0)
	vAssert(ok && used == len(l) && vSameLines(out, r) || len(d.Edits) == 0 && vSameLines(l, r), "Edits is a full script from Left to Right")
	vCheckChunks(d, "after New", 0, true, false)
	for _, c := range d.Chunks {
		for _, e := range c.Edits {
			vAssert(e.Op != slice.OpEmit, "after New chunks carry no context")
		}
	}
	d.AddContext(n)
	vCover("context-added")
	vCheckChunks(d, "after AddContext", n, false, false)
	if n2 := vCase("ctx2"); n2 > 0 {
		// widening the context in steps is still "after AddContext"
		d.AddContext(n2)
		vCover("context-added-twice")
		vCheckChunks(d, "after a second AddContext", n+n2, false, false)
		vAssert(vEditsUnchanged(d.Edits, snap), "Edits not disturbed by a second AddContext")
	}
	vAssert(vEditsUnchanged(d.Edits, snap), "Edits not disturbed by AddContext")
	d.Unify()
	vCover("unified")
	vCheckChunks(d, "after Unify", -1, true, true)
	vAssert(vEditsUnchanged(d.Edits, snap), "Edits not disturbed by Unify")
	vAssert(vSameLines(d.Left, l) && vSameLines(d.Right, r), "inputs intact")
}

func VT_mdiff_chunks() {
	l := []string{"a", "b", "c", "d", "e", "f", "g", "h"}
	r := []string{"a", "x", "c", "d", "e", "y", "z", "h", "i"}
	for _, n := range []int{0, 1, 2, 3} {
		d := New(l, r).AddContext(n).Unify()
		var rs []int
		for _, c := range d.Chunks {
			rs = append(rs, c.LStart, c.LEnd, c.RStart, c.REnd, len(c.Edits))
		}
		vOut("chunks", n, rs, len(d.Edits))
	}
}
