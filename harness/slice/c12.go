package slice

import "cmp"

// C12 harnesses: LIS / LNDS optimality under natural, reversed and non-unit comparators.

func vCmpKind(kind int) func(a, b int) int {
	switch kind {
	case 0:
		return cmp.Compare[int]
	case 1:
		return func(a, b int) int { return cmp.Compare(b, a) }
	default: // same order as natural, but magnitudes other than 1
		return func(a, b int) int {
			if a < b {
				return -2
			}
			if a > b {
				return 3
			}
			return 0
		}
	}
}

// vRefLongest: O(n^2) DP for the longest subsequence with c(prev, next) > 0 (strict)
// or >= 0 (non-strict) between consecutive picks.
func vRefLongest(vs []int, c func(a, b int) int, strict bool) int {
	best := 0
	dp := make([]int, len(vs))
	for i := range vs {
		dp[i] = 1
		for j := 0; j < i; j++ {
			r := c(vs[i], vs[j])
			ok := r >= 0
			if strict {
				ok = r > 0
			}
			if ok && dp[j]+1 > dp[i] {
				dp[i] = dp[j] + 1
			}
		}
		if dp[i] > best {
			best = dp[i]
		}
	}
	return best
}

func VH_slice_LIS() {
	n := vCase("n")
	kind := vCase("cmp")
	strict := vCase("strict") == 1
	vs := vMkInts(n)
	v0 := append([]int{}, vs...)
	c := vCmpKind(kind)
	var got []int
	switch {
	case strict && kind == 0 && vCase("plain") == 1:
		got = LIS(vs)
	case strict:
		got = LISFunc(vs, c)
	case kind == 0 && vCase("plain") == 1:
		got = LNDS(vs)
	default:
		got = LNDSFunc(vs, c)
	}
	vCover("longest")
	for i := 1; i < len(got); i++ {
		r := c(got[i], got[i-1])
		if strict {
			vAssert(r > 0, "LIS: strictly increasing under the comparison")
		} else {
			vAssert(r >= 0, "LNDS: non-decreasing under the comparison")
		}
	}
	vAssert(vIsSubseq(got, vs), "result is a subsequence of the input")
	vAssert(len(got) == vRefLongest(vs, c, strict), "result has maximum possible length")
	for i := range vs {
		vAssert(vs[i] == v0[i], "input not modified")
	}
}

// vFloatOf maps a choice index to a float64 value; index 0 is NaN. Floats are
// concrete in the engine: every value is a forked choice.
func vFloatOf(i int) float64 {
	var zero float64
	switch i {
	case 0:
		return zero / zero // NaN
	case 1:
		return -1 / zero // -Inf
	}
	return float64(i - 2)
}

func vFloatIs(a, b float64) bool { return a == b || a != a && b != b }

// VH_slice_LISFloat: LIS and LNDS on float64 values including NaN and an
// infinity, in the natural order of the ordered types (cmp.Compare: NaN sorts
// before everything and equals itself). Optimal length by an O(n^2) reference,
// result is a subsequence in the required order, input unmodified.
func VH_slice_LISFloat() {
	n := vCase("n")
	strict := vCase("strict") == 1
	vs := make([]float64, n)
	for i := range vs {
		vs[i] = vFloatOf(vChoice("f", 5))
	}
	v0 := append([]float64{}, vs...)
	var got []float64
	if strict {
		got = LIS(vs)
	} else {
		got = LNDS(vs)
	}
	vCover("lis-float")
	// reference optimum
	best := 0
	dp := make([]int, n)
	for i := range vs {
		dp[i] = 1
		for j := 0; j < i; j++ {
			r := cmp.Compare(vs[i], vs[j])
			if (strict && r > 0 || !strict && r >= 0) && dp[j]+1 > dp[i] {
				dp[i] = dp[j] + 1
			}
		}
		if dp[i] > best {
			best = dp[i]
		}
	}
	vAssert(len(got) == best, "LIS/LNDS on floats: optimal length in the natural order")
	j := 0
	for i := 0; i < n && j < len(got); i++ {
		if vFloatIs(vs[i], got[j]) {
			j++
		}
	}
	vAssert(j == len(got), "LIS/LNDS on floats: result is a subsequence of the input")
	for i := 1; i < len(got); i++ {
		r := cmp.Compare(got[i-1], got[i])
		vAssert(r < 0 || !strict && r == 0, "LIS/LNDS on floats: result is in the required order")
	}
	for i := range vs {
		vAssert(vFloatIs(vs[i], v0[i]), "LIS/LNDS on floats: input not modified")
	}
}

// VH_slice_LISLong: a long strictly increasing run followed by a few arbitrary
// elements: the answer is long enough to leave any small-size fast path of the search.
func VH_slice_LISLong() {
	n, extra := vCase("n"), vCase("extra")
	kind := vCase("cmp")
	strict := vCase("strict") == 1
	vs := vMkInts(n + extra)
	for i := 1; i < n; i++ {
		vAssume(vs[i-1] < vs[i])
	}
	c := vCmpKind(kind)
	if kind == 1 {
		// reversed comparison: make the run increasing under it
		for i, j := 0, n-1; i < j; i, j = i+1, j-1 {
			vs[i], vs[j] = vs[j], vs[i]
		}
	}
	v0 := append([]int{}, vs...)
	var got []int
	if strict {
		got = LISFunc(vs, c)
	} else {
		got = LNDSFunc(vs, c)
	}
	vCover("longest-long")
	for i := 1; i < len(got); i++ {
		r := c(got[i], got[i-1])
		if strict {
			vAssert(r > 0, "LIS (long): strictly increasing under the comparison")
		} else {
			vAssert(r >= 0, "LNDS (long): non-decreasing under the comparison")
		}
	}
	vAssert(vIsSubseq(got, vs), "result (long) is a subsequence of the input")
	vAssert(len(got) == vRefLongest(vs, c, strict), "result (long) has maximum possible length")
	for i := range vs {
		vAssert(vs[i] == v0[i], "input (long) not modified")
	}
}

func VT_slice_lis() {
	in := []int{1, 3, 6, 7, 9, 4, 10, 5, 6, 6, 2}
	vOut("lis", LIS(in))
	vOut("lnds", LNDS(in))
	vOut("lisrev", LISFunc(in, func(a, b int) int { return cmp.Compare(b, a) }))
	vOut("lndsrev", LNDSFunc(in, func(a, b int) int { return cmp.Compare(b, a) }))
}
