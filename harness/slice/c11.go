package slice

// C11/C12 harnesses: EditScript validity/minimality/canonical form; LCS; LIS; LNDS.

func vRefLCSLen(a, b []int) int {
	dp := make([][]int, len(a)+1)
	for i := range dp {
		dp[i] = make([]int, len(b)+1)
	}
	for i := 1; i <= len(a); i++ {
		for j := 1; j <= len(b); j++ {
			if a[i-1] == b[j-1] {
				dp[i][j] = dp[i-1][j-1] + 1
			} else if dp[i-1][j] >= dp[i][j-1] {
				dp[i][j] = dp[i-1][j]
			} else {
				dp[i][j] = dp[i][j-1]
			}
		}
	}
	return dp[len(a)][len(b)]
}

func vSpanIs(x []int, base []int, off int) bool {
	// x must be exactly base[off:off+len(x)] (same storage)
	if off < 0 || off+len(x) > len(base) {
		return false
	}
	for i := range x {
		if &x[i] != &base[off+i] {
			return false
		}
	}
	return true
}

// vCheckScript checks that es is a well-formed, canonical edit script that
// turns lhs into rhs and keeps exactly wantKept elements.
func vCheckScript(es []Edit[int], lhs, rhs []int, wantKept int) {
	nl, nr := len(lhs), len(rhs)
	lpos, rpos, kept := 0, 0, 0
	var out []int
	for i, e := range es {
		switch e.Op {
		case OpEmit:
			vAssert(len(e.X) > 0, "no empty edit")
			vAssert(vSpanIs(e.X, lhs, lpos), "Emit.X is the span of lhs at the current offset")
			vAssert(len(e.Y) == 0, "Emit has no Y")
			// emitted elements must also be what rhs has here
			vAssert(rpos+len(e.X) <= nr, "Emit stays inside rhs")
			for k := range e.X {
				vAssert(e.X[k] == rhs[rpos+k], "Emit: lhs and rhs agree on emitted elements")
			}
			out = append(out, e.X...)
			kept += len(e.X)
			lpos += len(e.X)
			rpos += len(e.X)
		case OpDrop:
			vAssert(len(e.X) > 0, "no empty edit")
			vAssert(vSpanIs(e.X, lhs, lpos), "Drop.X is the span of lhs at the current offset")
			vAssert(len(e.Y) == 0, "Drop has no Y")
			lpos += len(e.X)
		case OpCopy:
			vAssert(len(e.Y) > 0, "no empty edit")
			vAssert(vSpanIs(e.Y, rhs, rpos), "Copy.Y is the span of rhs at the current offset")
			vAssert(len(e.X) == 0, "Copy has no X")
			out = append(out, e.Y...)
			rpos += len(e.Y)
		case OpReplace:
			vAssert(len(e.X) > 0 && len(e.Y) > 0, "no empty edit")
			vAssert(vSpanIs(e.X, lhs, lpos), "Replace.X is the span of lhs at the current offset")
			vAssert(vSpanIs(e.Y, rhs, rpos), "Replace.Y is the span of rhs at the current offset")
			out = append(out, e.Y...)
			lpos += len(e.X)
			rpos += len(e.Y)
		default:
			vAssert(false, "unknown edit operation")
		}
		if i > 0 {
			p := es[i-1].Op
			vAssert(p != e.Op, "adjacent edits differ in kind")
			vAssert(!(p == OpDrop && e.Op == OpCopy) && !(p == OpCopy && e.Op == OpDrop), "a drop adjacent to a copy is fused into a Replace")
			vAssert(!(p == OpReplace && (e.Op == OpDrop || e.Op == OpCopy)) && !(e.Op == OpReplace && (p == OpDrop || p == OpCopy)), "Replace is not adjacent to Drop/Copy")
		}
	}
	if len(es) > 0 {
		vAssert(lpos == nl, "script consumes lhs exactly")
		vAssert(rpos == nr, "script produces exactly len(rhs) elements")
		for i := range out {
			vAssert(out[i] == rhs[i], "script produces rhs")
		}
		vAssert(kept == wantKept, "emitted count equals the LCS length (minimal script)")
	}
}

// VH_slice_EditScriptAlias: the two arguments are views of one array (a slice
// and a truncation or in-place extension of it, or two windows at different
// offsets): same obligations as for unrelated arguments.
func VH_slice_EditScriptAlias() {
	nl, nr, off := vCase("nl"), vCase("nr"), vCase("off")
	buf := vMkInts(max(nl, nr+off))
	lhs, rhs := buf[:nl], buf[off:off+nr]
	b0 := append([]int{}, buf...)
	es := EditScript(lhs, rhs)
	vCover("script-alias")
	want := 0
	if len(es) > 0 {
		want = vRefLCSLen(lhs, rhs)
	}
	vCheckScript(es, lhs, rhs, want)
	same := nl == nr
	if same {
		for i := range lhs {
			if lhs[i] != rhs[i] {
				same = false
				break
			}
		}
	}
	vAssert((len(es) == 0) == same, "script is empty exactly when lhs equals rhs (aliased arguments)")
	for i := range buf {
		vAssert(buf[i] == b0[i], "the shared array is not modified")
	}
	got := LCS(lhs, rhs)
	vAssert(len(got) == vRefLCSLen(lhs, rhs), "LCS of aliased arguments has optimal length")
}

func VH_slice_EditScript() {
	nl, nr := vCase("nl"), vCase("nr")
	lhs, rhs := vMkInts(nl), vMkInts(nr)
	l0 := append([]int{}, lhs...)
	r0 := append([]int{}, rhs...)
	es := EditScript(lhs, rhs)
	vCover("script")
	want := 0
	if len(es) > 0 {
		want = vRefLCSLen(lhs, rhs)
	}
	vCheckScript(es, lhs, rhs, want)
	// empty exactly when equal
	same := nl == nr
	if same {
		for i := range lhs {
			if lhs[i] != rhs[i] {
				same = false
				break
			}
		}
	}
	vAssert((len(es) == 0) == same, "script is empty exactly when lhs equals rhs")
	for i := range lhs {
		vAssert(lhs[i] == l0[i], "lhs not modified")
	}
	for i := range rhs {
		vAssert(rhs[i] == r0[i], "rhs not modified")
	}
	// a script already returned is not disturbed by later calls
	type snap struct {
		op     EditOp
		nx, ny int
	}
	var before []snap
	for _, e := range es {
		before = append(before, snap{e.Op, len(e.X), len(e.Y)})
	}
	other := EditScript([]int{7, 8, 9, 7}, []int{8, 7, 7, 9, 1})
	vAssert(len(other) > 0, "unrelated script")
	vAssert(len(EditScript([]int{5}, []int{5})) == 0, "unrelated script of equal inputs")
	vAssert(len(es) == len(before), "an earlier script keeps its length after later calls")
	for i, e := range es {
		vAssert(e.Op == before[i].op && len(e.X) == before[i].nx && len(e.Y) == before[i].ny, "an earlier script is not disturbed by later calls")
		if e.Op == OpCopy || e.Op == OpReplace {
			vAssert(vSpanInside(e.Y, rhs), "an earlier script still refers to its own rhs")
		}
		if e.Op != OpCopy {
			vAssert(vSpanInside(e.X, lhs), "an earlier script still refers to its own lhs")
		}
	}
}

// VH_slice_EditScriptBig: inputs at and just beyond plausible internal size
// thresholds. lhs is 0,2,4,…; rhs is 1,3,5,… (nothing in common, no common
// prefix or suffix), except for one symbolic element x in the middle of rhs
// and one symbolic element y near the end of lhs, each of which may or may not
// hit an element of the other side. The LCS length is known in closed form.
func VH_slice_EditScriptBig() {
	n, d := vCase("n"), vCase("d")
	m := n + d
	lhs, rhs := make([]int, n), make([]int, m)
	for i := range lhs {
		lhs[i] = 2 * i
	}
	for j := range rhs {
		rhs[j] = 2*j + 1
	}
	if n < 8 {
		return
	}
	// x: one of the last three lhs values' neighbourhood (even = hit)
	// y: around rhs[1] and rhs[2] (odd = hit), left of x's partner in lhs
	var x, y int
	if vCase("narrow") == 1 {
		// the very large sizes: two outcomes for x, y a fixed hit
		x, y = vRange("x", 2*n-2, 2*n-1), 3
	} else {
		x, y = vRange("x", 2*n-6, 2*n-1), vRange("y", 2, 6)
	}
	xp, yp := m/2, 1
	rhs[xp] = x
	lhs[yp] = y
	l0 := append([]int{}, lhs...)
	r0 := append([]int{}, rhs...)
	es := EditScript(lhs, rhs)
	vCover("bigscript")
	// x hits lhs[x/2] when even (x/2 ≥ n-3 > yp); y hits rhs[(y-1)/2] when odd
	// ((y-1)/2 ∈ {1,2} < xp). The two matches are compatible (both increasing), so
	// the LCS length is the number of hits.
	want := vIte(x%2 == 0, 1, 0) + vIte(y%2 == 1, 1, 0)
	vAssert(len(es) > 0, "different inputs give a non-empty script")
	vCheckScript(es, lhs, rhs, want)
	for i := range lhs {
		vAssert(lhs[i] == l0[i], "lhs not modified")
	}
	for i := range rhs {
		vAssert(rhs[i] == r0[i], "rhs not modified")
	}
	got := LCS(lhs, rhs)
	vAssert(len(got) == want, "LCS has optimal length")
	vAssert(vIsSubseq(got, lhs), "LCS is a subsequence of the first argument")
	vAssert(vIsSubseq(got, rhs), "LCS is a subsequence of the second argument")
}

// VH_slice_EditAfterPanic: state left behind by an interrupted call. A first
// LCS computation is abandoned half way because the caller's equality function
// panics (the caller recovers); a later EditScript must be unaffected.
func VH_slice_EditAfterPanic() {
	// (the abandoned computation runs on concrete inputs with a few matches: what
	// matters is where it is interrupted, not what it compared)
	na := vCase("na")
	a, b := make([]int, na), make([]int, na)
	for i := range a {
		a[i], b[i] = i, (i+1)%na
	}
	calls, stop := 0, vChoice("panic-at", na*na)+1
	panicked, _ := vPanics(func() {
		LCSFunc(a, b, func(x, y int) bool {
			calls++
			if calls == stop {
				panic("comparison failed")
			}
			return x == y
		})
	})
	vAssert(panicked, "the comparison's panic propagates to the caller")
	vCover("after-panic")
	nl, nr := vCase("nl"), vCase("nr")
	lhs, rhs := vMkInts(nl), vMkInts(nr)
	es := EditScript(lhs, rhs)
	want := 0
	if len(es) > 0 {
		want = vRefLCSLen(lhs, rhs)
	}
	vCheckScript(es, lhs, rhs, want)
	got := LCS(lhs, rhs)
	vAssert(len(got) == vRefLCSLen(lhs, rhs), "LCS has optimal length after an abandoned computation")
}

// vSpanInside reports whether x is a sub-slice of base's storage.
func vSpanInside(x, base []int) bool {
	if len(x) == 0 {
		return true
	}
	for i := range base {
		if &base[i] == &x[0] {
			return i+len(x) <= len(base)
		}
	}
	return false
}

// vIsSubseq reports whether sub is a subsequence of s (greedy; forks on equalities).
func vIsSubseq(sub, s []int) bool {
	j := 0
	for i := 0; i < len(s) && j < len(sub); i++ {
		if s[i] == sub[j] {
			j++
		}
	}
	return j == len(sub)
}

func VH_slice_LCS() {
	nl, nr := vCase("nl"), vCase("nr")
	a, b := vMkInts(nl), vMkInts(nr)
	if vCase("alias") == 1 {
		// two views of one array starting at the same element (a snapshot and a truncation)
		if nr <= nl {
			b = a[:nr]
		} else {
			a = b[:nl]
		}
	}
	a0 := append([]int{}, a...)
	b0 := append([]int{}, b...)
	var got []int
	if vCase("func") == 0 {
		got = LCS(a, b)
	} else {
		got = LCSFunc(a, b, func(x, y int) bool { return x == y })
	}
	vCover("lcs")
	vAssert(len(got) == vRefLCSLen(a, b), "LCS has optimal length")
	vAssert(vIsSubseq(got, a), "LCS is a subsequence of the first argument")
	vAssert(vIsSubseq(got, b), "LCS is a subsequence of the second argument")
	for i := range a {
		vAssert(a[i] == a0[i], "first argument not modified")
	}
	for i := range b {
		vAssert(b[i] == b0[i], "second argument not modified")
	}
}

func VT_slice_edit() {
	a := []int{1, 2, 3, 4, 5, 6, 7}
	b := []int{2, 9, 3, 4, 8, 7, 7}
	vOut("lcs", LCS(a, b))
	var ops []int
	var lens []int
	for _, e := range EditScript(a, b) {
		ops = append(ops, int(e.Op))
		lens = append(lens, len(e.X), len(e.Y))
	}
	vOut("script", ops, lens)
	vOut("same", len(EditScript(a, a)))
}
