package slice

// C17 harnesses: Partition, Rotate, Chunks, Batches, Head, Tail, Stripe, At, PtrAt.

type vPE struct {
	ID int  // concrete original index
	K  bool // symbolic keep bit
}

func vMkInts(n int) []int {
	out := make([]int, n)
	for i := range out {
		out[i] = vOrd("e")
	}
	return out
}

func VH_slice_Partition() {
	n := vCase("n")
	// backing array with spare capacity, so clipping is observable
	back := make([]vPE, n, n+2)
	for i := range back {
		back[i] = vPE{ID: i, K: vBool("keep")}
	}
	orig := append([]vPE{}, back...)
	got := Partition(back, func(e vPE) bool { return e.K })
	vCover("partitioned")
	// expected kept IDs in order
	var want []int
	for _, e := range orig {
		if e.K {
			want = append(want, e.ID)
		}
	}
	vAssert(len(got) == len(want), "Partition: result length = number of kept elements")
	for i := range got {
		vAssert(got[i].ID == want[i], "Partition: kept elements in original order")
		vAssert(got[i].K == true, "Partition: result elements satisfy the predicate")
	}
	if n > 0 {
		vAssert(cap(got) == len(got), "Partition: result capacity is clipped")
		if len(got) > 0 {
			vAssert(&got[0] == &back[0], "Partition: result is a prefix of the input's storage")
		}
	}
	// whole slice is a permutation of the original
	seen := make([]bool, n)
	for _, e := range back {
		vAssert(e.ID >= 0 && e.ID < n && !seen[e.ID], "Partition: whole slice is a permutation")
		seen[e.ID] = true
		vAssert(e.K == orig[e.ID].K, "Partition: elements keep their values")
	}
}

func VH_slice_Rotate() {
	n := vCase("n")
	// spare capacity behind the slice: Rotate must only look at the length
	ss := vMkInts(n + vCase("spare"))[:n]
	orig := append([]int{}, ss...)
	k := vConcrete(vRange("k", -n-1, n+1))
	panicked, _ := vPanics(func() { Rotate(ss, k) })
	if k < -n || k > n {
		vCover("rotate-out-of-range")
		vAssert(panicked, "Rotate: panics outside [-n,n]")
		return
	}
	vCover("rotate-in-range")
	vAssert(!panicked, "Rotate: does not panic for -n <= k <= n")
	for i := 0; i < n; i++ {
		j := ((i+k)%n + n) % n
		vAssert(ss[j] == orig[i], "Rotate: element i ends at (i+k) mod n")
	}
}

// VH_slice_RotateLong: long slices (beyond any small-size code path), a few offsets.
func VH_slice_RotateLong() {
	n := vCase("n")
	ss := vMkInts(n + 1)[:n]
	orig := append([]int{}, ss...)
	k := []int{1, -1, 2, n / 2, n - 1, -(n - 1), n/2 + 1, n, -n, 0}[vChoice("k", 10)]
	Rotate(ss, k)
	vCover("rotate-long")
	for i := 0; i < n; i++ {
		j := ((i+k)%n + n) % n
		vAssert(ss[j] == orig[i], "Rotate (long): element i ends at (i+k) mod n")
	}
}

// VH_slice_ChunksHuge: every chunk size from len(vs) up to the largest int is allowed
// and yields the input as a single chunk; the size is a solver variable.
func VH_slice_ChunksHuge() {
	ln := vCase("n")
	vs := vMkInts(ln)
	n := vRange("size", ln, 1<<63-1)
	var out [][]int
	panicked, _ := vPanics(func() { out = Chunks(vs, n) })
	vCover("chunks-huge")
	vAssert(!panicked, "Chunks: no panic for any n >= len(vs)")
	if !panicked {
		vAssert(len(out) == 1 || ln == 0 && len(out) <= 1, "Chunks: a single chunk when n >= len(vs)")
		if len(out) == 1 {
			vAssert(len(out[0]) == ln, "Chunks: the single chunk is the whole input")
		}
	}
	var bs [][]int
	p2, _ := vPanics(func() { bs = Batches(vs, n) })
	vAssert(!p2 && len(bs) == ln, "Batches: no panic and len(vs) batches for any n >= len(vs)")
}

func vCheckPieces(vs []int, pieces [][]int, what string) {
	// consecutive, capacity-clipped, concatenation = vs
	pos := 0
	for pi, p := range pieces {
		for j := range p {
			vAssert(pos+j < len(vs), what+": pieces stay inside the input")
			vAssert(&p[j] == &vs[pos+j], what+": pieces are consecutive subslices of the input")
		}
		if pi < len(pieces)-1 {
			vAssert(cap(p) == len(p), what+": piece capacity is clipped")
		} else {
			vAssert(cap(p) <= cap(vs)-pos, what+": last piece does not extend past the input's capacity")
		}
		pos += len(p)
	}
	vAssert(pos == len(vs), what+": concatenation covers the input exactly")
}

func VH_slice_Chunks() {
	ln := vCase("n")
	vs := vMkInts(ln)
	n := vConcrete(vRange("size", -1, ln+2))
	var out [][]int
	panicked, _ := vPanics(func() { out = Chunks(vs, n) })
	if n < 0 {
		vCover("chunks-negative")
		vAssert(panicked, "Chunks: panics for n < 0")
		return
	}
	vCover("chunks")
	vAssert(!panicked, "Chunks: no panic for n >= 0")
	vCheckPieces(vs, out, "Chunks")
	if n > 0 {
		for i, c := range out {
			if i < len(out)-1 {
				vAssert(len(c) == n, "Chunks: all chunks but the last have length n")
			} else {
				vAssert(len(c) <= n || ln == 0, "Chunks: last chunk has length at most n")
				vAssert(len(c) > 0 || ln == 0, "Chunks: no empty chunk for non-empty input")
			}
		}
	}
}

func VH_slice_Batches() {
	ln := vCase("n")
	vs := vMkInts(ln)
	n := vConcrete(vRange("count", -1, ln+2))
	var out [][]int
	panicked, _ := vPanics(func() { out = Batches(vs, n) })
	if n < 0 {
		vCover("batches-negative")
		vAssert(panicked, "Batches: panics for n < 0")
		return
	}
	vCover("batches")
	vAssert(!panicked, "Batches: no panic for n >= 0")
	want := n
	if ln < want {
		want = ln
	}
	vAssert(len(out) == want, "Batches: exactly min(n, len) batches")
	if n > 0 {
		vCheckPieces(vs, out, "Batches")
	}
	lo, hi := ln+1, -1
	for _, b := range out {
		if len(b) < lo {
			lo = len(b)
		}
		if len(b) > hi {
			hi = len(b)
		}
	}
	if len(out) > 0 {
		vAssert(hi-lo <= 1, "Batches: lengths differ by at most one")
		vAssert(lo >= 1, "Batches: no empty batch")
	}
}

func VH_slice_HeadTailStripe() {
	ln := vCase("n")
	vs := vMkInts(ln)
	n := vConcrete(vRange("n", 0, ln+2))
	h := Head(vs, n)
	t := Tail(vs, n)
	m := n
	if ln < m {
		m = ln
	}
	vCover("headtail")
	vAssert(len(h) == m, "Head: length min(n,len)")
	vAssert(len(t) == m, "Tail: length min(n,len)")
	for i := 0; i < m; i++ {
		vAssert(&h[i] == &vs[i], "Head: first elements of the input")
		vAssert(&t[i] == &vs[ln-m+i], "Tail: last elements of the input")
	}
	// Stripe over rows of decreasing length
	rows := [][]int{vs, Head(vs, ln/2), nil, Tail(vs, 1)}
	i := vConcrete(vRange("col", 0, ln+1))
	s := Stripe(rows, i)
	var want []int
	for _, r := range rows {
		if i < len(r) {
			want = append(want, r[i])
		}
	}
	vAssert(len(s) == len(want), "Stripe: one element per row that is long enough")
	for j := range s {
		vAssert(s[j] == want[j], "Stripe: i-th element of each row in order")
	}
}

// VH_slice_FarArgs: integer arguments anywhere in the int range (the other
// harnesses stay around the valid range because they concretise the argument).
func VH_slice_FarArgs() {
	ln := vCase("n")
	vs := vMkInts(ln)
	orig := append([]int{}, vs...)
	k := vInt("k")
	vAssume(vAny(k < -ln-1, k > ln+2))
	vCover("far-args")
	switch vCase("fn") {
	case 0:
		panicked, _ := vPanics(func() { Rotate(vs, k) })
		vAssert(panicked, "Rotate: panics outside [-n,n], however far")
		for i := range vs {
			vAssert(vs[i] == orig[i], "Rotate: a refused rotation leaves the slice alone")
		}
	case 1:
		var got int
		panicked, _ := vPanics(func() { got = At(vs, k) })
		vAssert(panicked && got == 0, "At: panics for an index out of range, however far")
		vAssert(PtrAt(vs, k) == nil, "PtrAt: nil for an index out of range, however far")
	case 2:
		// (negative counts are not documented for Head/Tail/Stripe: not called)
		vAssume(k > 0)
		h, t := Head(vs, k), Tail(vs, k)
		vAssert(len(h) == ln && len(t) == ln, "Head/Tail: the whole slice when n exceeds its length, however far")
	case 3:
		vAssume(k > 0)
		s := Stripe([][]int{vs, vs[:ln/2]}, k)
		vAssert(len(s) == 0, "Stripe: empty when no row is long enough")
	case 4:
		var out [][]int
		panicked, _ := vPanics(func() { out = Batches(vs, k) })
		if k < 0 {
			vAssert(panicked, "Batches: panics for n < 0, however far")
		} else {
			vAssert(!panicked && len(out) == ln, "Batches: capped at len(vs) batches, however large n is")
			vCheckPieces(vs, out, "Batches(far)")
		}
	case 5:
		var out [][]int
		panicked, _ := vPanics(func() { out = Chunks(vs, k) })
		if k < 0 {
			vAssert(panicked, "Chunks: panics for n < 0, however far")
		} else {
			vAssert(!panicked, "Chunks: no panic for a huge n")
			vCheckPieces(vs, out, "Chunks(far)")
			vAssert(len(out) <= 1, "Chunks: one chunk when n exceeds the length")
		}
	}
}

func VH_slice_At() {
	ln := vCase("n")
	vs := vMkInts(ln)
	i := vRange("i", -ln-1, ln)
	inRange := vAll(i >= -ln, i < ln)
	var got int
	panicked, _ := vPanics(func() { got = At(vs, i) })
	p := PtrAt(vs, i)
	if panicked {
		vCover("at-panics")
		vAssert(!inRange, "At: panics only when the index is out of range")
		vAssert(p == nil, "PtrAt: nil when At panics")
		return
	}
	vCover("at-ok")
	vAssert(inRange, "At: index in range when it does not panic")
	vAssert(p != nil, "PtrAt: non-nil for an index in range")
	for c := -ln; c < ln; c++ {
		j := c
		if j < 0 {
			j += ln
		}
		vAssert(vImplies(i == c, got == vs[j]), "At: documented element (negative counts from the end)")
		if vConcrete(vIte(i == c, 1, 0)) == 1 {
			vAssert(p == &vs[j], "PtrAt: pointer to the documented element")
		}
	}
}

// VT_slice_tables: concrete driver for the translator self-test.
func VT_slice_tables() {
	in := []int{1, 2, 3, 4, 5, 6, 7}
	for k := -7; k <= 7; k++ {
		c := append([]int{}, in...)
		Rotate(c, k)
		vOut("rotate", k, c)
	}
	even := func(v int) bool { return v%2 == 0 }
	c := append([]int{}, in...)
	p := Partition(c, even)
	vOut("partition", p, c, len(p), cap(p))
	for n := 0; n <= 8; n++ {
		var lens []int
		for _, ch := range Chunks(in, n) {
			lens = append(lens, len(ch))
		}
		vOut("chunks", n, lens)
		lens = nil
		for _, b := range Batches(in, n) {
			lens = append(lens, len(b))
		}
		vOut("batches", n, lens)
	}
	vOut("at", At(in, -1), At(in, 0), At(in, 6), At(in, -7))
	vOut("headtail", Head(in, 3), Tail(in, 3), Head(in, 9), Tail(in, 0))
	var grown []int
	var caps []int
	for i := 0; i < 40; i++ {
		grown = append(grown, i)
		caps = append(caps, cap(grown))
	}
	vOut("caps", caps)
}
