package mstr

// C20 (mstr): Trunc and CompareNatural.

func vMkStr(n int, name string) string {
	b := make([]byte, n)
	for i := range b {
		b[i] = vByte(name)
	}
	return string(b)
}

// vValidUTF8 is an independent validator written from RFC 3629's table.
func vValidUTF8(s string) bool {
	i := 0
	for i < len(s) {
		c := s[i]
		switch {
		case c < 0x80:
			i++
		case c >= 0xc2 && c <= 0xdf:
			if i+1 >= len(s) || !vCont(s[i+1], 0x80, 0xbf) {
				return false
			}
			i += 2
		case c >= 0xe0 && c <= 0xef:
			if i+2 >= len(s) {
				return false
			}
			lo, hi := byte(0x80), byte(0xbf)
			if c == 0xe0 {
				lo = 0xa0
			} else if c == 0xed {
				hi = 0x9f
			}
			if !vCont(s[i+1], lo, hi) || !vCont(s[i+2], 0x80, 0xbf) {
				return false
			}
			i += 3
		case c >= 0xf0 && c <= 0xf4:
			if i+3 >= len(s) {
				return false
			}
			lo, hi := byte(0x80), byte(0xbf)
			if c == 0xf0 {
				lo = 0x90
			} else if c == 0xf4 {
				hi = 0x8f
			}
			if !vCont(s[i+1], lo, hi) || !vCont(s[i+2], 0x80, 0xbf) || !vCont(s[i+3], 0x80, 0xbf) {
				return false
			}
			i += 4
		default:
			return false
		}
	}
	return true
}

func vCont(b, lo, hi byte) bool { return b >= lo && b <= hi }

func VH_mstr_Trunc() {
	ln := vCase("n")
	s := vMkStr(ln, "s")
	if vCase("valid") == 1 {
		vAssume(vValidUTF8(s))
	}
	n := vRange("cut", 0, 1<<63-1) // every n >= 0
	got := Trunc(s, n)
	vCover("trunc")
	vAssert(len(got) <= ln, "Trunc: result no longer than s")
	vAssert(got == s[:len(got)], "Trunc: result is a prefix of s")
	vAssert(len(got) <= n, "Trunc: at most n bytes")
	vAssert(vImplies(n >= ln, len(got) == ln), "Trunc: s itself when n >= len(s)")
	if vCase("valid") == 1 {
		vCover("trunc-valid")
		vAssert(vValidUTF8(got), "Trunc: result is valid UTF-8 when s is")
		vAssert(vImplies(n < ln, n-len(got) <= 4), "Trunc: at most one encoded character shorter than n")
	}
}

func vIsDigit(b byte) bool { return b >= '0' && b <= '9' }

// vNormalise strips leading zeros of every digit run (keeping one digit for an all-zero run).
func vNormalise(s string) string {
	out := []byte{}
	i := 0
	for i < len(s) {
		if !vIsDigit(s[i]) {
			out = append(out, s[i])
			i++
			continue
		}
		j := i
		for j < len(s) && vIsDigit(s[j]) {
			j++
		}
		k := i
		for k < j-1 && s[k] == '0' {
			k++
		}
		out = append(out, s[k:j]...)
		i = j
	}
	return string(out)
}

func VH_mstr_CompareNatural() {
	a := vMkStr(vCase("la"), "a")
	b := vMkStr(vCase("lb"), "b")
	ab := CompareNatural(a, b)
	ba := CompareNatural(b, a)
	vCover("compared")
	vAssert(ab == -1 || ab == 0 || ab == 1, "CompareNatural: result in {-1,0,1}")
	vAssert(ab == -ba, "CompareNatural: antisymmetric")
	vAssert((ab == 0) == (vNormalise(a) == vNormalise(b)), "CompareNatural: 0 exactly for strings equal up to leading zeros of digit runs")
	vAssert(CompareNatural(a, a) == 0, "CompareNatural: reflexive")
	// without digits it is the ordinary lexicographic comparison
	nodig := true
	for i := 0; i < len(a); i++ {
		nodig = vAll(nodig, !vIsDigit(a[i]))
	}
	for i := 0; i < len(b); i++ {
		nodig = vAll(nodig, !vIsDigit(b[i]))
	}
	lex := vIte(a < b, -1, vIte(a > b, 1, 0))
	vAssert(vImplies(nodig, ab == lex), "CompareNatural: lexicographic on strings without digits")
}

func VH_mstr_CompareNaturalTrans() {
	a := vMkStr(vCase("la"), "a")
	b := vMkStr(vCase("lb"), "b")
	c := vMkStr(vCase("lc"), "c")
	ab := CompareNatural(a, b)
	bc := CompareNatural(b, c)
	ac := CompareNatural(a, c)
	vCover("transitive")
	vAssert(!(ab <= 0 && bc <= 0) || ac <= 0, "CompareNatural: transitive (<=)")
	vAssert(!(ab < 0 && bc <= 0) || ac < 0, "CompareNatural: transitive (strict then weak)")
	vAssert(!(ab <= 0 && bc < 0) || ac < 0, "CompareNatural: transitive (weak then strict)")
}

// VH_mstr_DigitRuns: two strings that differ only in one digit run are ordered by the run's value.
func VH_mstr_DigitRuns() {
	pre := vMkStr(vCase("lp"), "p")
	x := vMkStr(vCase("lx"), "x")
	y := vMkStr(vCase("ly"), "y")
	for i := 0; i < len(x); i++ {
		vAssume(vIsDigit(x[i]))
	}
	for i := 0; i < len(y); i++ {
		vAssume(vIsDigit(y[i]))
	}
	for i := 0; i < len(pre); i++ {
		vAssume(!vIsDigit(pre[i])) // a non-digit prefix of any length
	}
	suf := "z"
	vx, vy := 0, 0
	for i := 0; i < len(x); i++ {
		vx = vx*10 + int(x[i]-'0')
	}
	for i := 0; i < len(y); i++ {
		vy = vy*10 + int(y[i]-'0')
	}
	got := CompareNatural(pre+x+suf, pre+y+suf)
	vCover("digit-runs")
	vAssert(vImplies(vx < vy, got == -1), "CompareNatural: digit runs ordered by numeric value (<)")
	vAssert(vImplies(vx > vy, got == 1), "CompareNatural: digit runs ordered by numeric value (>)")
	vAssert(vImplies(vx == vy, got == 0), "CompareNatural: equal values compare equal")
}

// VH_mstr_LongDigitRuns: digit runs of 16 to 19 digits (still inside the int
// range, but beyond what a float64 holds exactly): two runs that share a long
// prefix and differ in their last digits are ordered by value. The last digit
// of each run is a forked choice (concrete on every path).
func VH_mstr_LongDigitRuns() {
	prefixes := []string{"900719925474099", "92233720368547758", "100000000000000000"}
	p := prefixes[vCase("prefix")]
	dx, dy := vChoice("dx", 10), vChoice("dy", 10)
	if p == "92233720368547758" && (dx > 0 || dy > 0) {
		// 9223372036854775807 is the largest int: keep both runs at or below ...7580
		vAssume(false)
	}
	x := p + string([]byte{byte('0' + dx)})
	y := p + string([]byte{byte('0' + dy)})
	lead := ""
	if vChoice("leading-zeros", 2) == 1 {
		lead = "00"
	}
	got := CompareNatural("v"+lead+x+"-a", "v"+y+"-b")
	vCover("long-digit-runs")
	switch {
	case dx < dy:
		vAssert(got == -1, "CompareNatural: long digit runs ordered by numeric value (<)")
	case dx > dy:
		vAssert(got == 1, "CompareNatural: long digit runs ordered by numeric value (>)")
	default:
		vAssert(got == -1, "CompareNatural: equal long runs fall through to the rest of the string")
	}
	vAssert(CompareNatural("v"+lead+x, "v"+x) == 0, "CompareNatural: 0 for long runs equal up to leading zeros")
}

func VT_mstr_tables() {
	for _, s := range []string{"", "abc", "café", "日本語", "a\U0001F600b", "\x80\x80", "ab\xc3"} {
		var outs []string
		for n := 0; n <= len(s)+1; n++ {
			outs = append(outs, Trunc(s, n))
		}
		vOut("trunc", s, outs)
	}
	pairs := [][2]string{{"", ""}, {"x", ""}, {"01", "1"}, {"a2b", "a25b"}, {"a12b", "a2"}, {"123", "a"}, {"123", "."}, {"12c9", "12cv"}, {"a025b", "a25b"}, {"07c", "6c"}}
	var rs []int
	for _, p := range pairs {
		rs = append(rs, CompareNatural(p[0], p[1]))
	}
	vOut("natural", rs)
}
