package shell

// C15: Quote/Join protect every string; Split inverts Join; a reference POSIX word
// evaluator obtains exactly s from Quote(s) and never meets an unquoted special byte.

// vSpecial is the POSIX XCU 2.2 list of characters that must be quoted to represent
// themselves, plus those that need quoting in some contexts, written from the standard.
func vSpecial(c byte) bool {
	switch c {
	case '|', '&', ';', '<', '>', '(', ')', '$', '`', '\\', '"', '\'', ' ', '\t', '\n':
		return true
	case '*', '?', '[', '#', '~', '=', '%':
		return true
	}
	return false
}

// vEvalWord evaluates w as one shell word: returns the resulting bytes, and
// whether it was well-formed and met no unquoted special byte.
func vEvalWord(w []byte) (out []byte, ok bool) {
	ok = true
	i := 0
	for i < len(w) {
		c := w[i]
		i++
		switch {
		case c == '\'':
			closed := false
			for i < len(w) {
				d := w[i]
				i++
				if d == '\'' {
					closed = true
					break
				}
				out = append(out, d)
			}
			if !closed {
				return out, false
			}
		case c == '\\':
			if i == len(w) {
				return out, false
			}
			if w[i] == '\n' {
				return out, false // would be a line continuation: the byte is lost
			}
			out = append(out, w[i])
			i++
		case vSpecial(c):
			return out, false // an unquoted special byte
		default:
			out = append(out, c)
		}
	}
	return out, ok
}

func vMkBytes(n int, name string) []byte {
	b := make([]byte, n)
	for i := range b {
		b[i] = vByte(name)
	}
	return b
}

func VH_shell_Quote() {
	s := string(vMkBytes(vCase("n"), "s"))
	for round := 0; round < 2; round++ { // twice: a stale pooled buffer would show
		q := Quote(s)
		vCover("quote")
		fs, ok := Split(q)
		vAssert(ok, "Split(Quote(s)) is complete")
		vAssert(len(fs) == 1, "Split(Quote(s)) is a single field")
		if len(fs) == 1 {
			vAssert(fs[0] == s, "Split(Quote(s)) returns s")
		}
		out, wf := vEvalWord([]byte(q))
		vAssert(wf, "Quote(s) leaves no special byte unquoted and is a well-formed word")
		vAssert(string(out) == s, "a shell evaluating Quote(s) as one word obtains exactly s")
		vAssert(len(q) > 0, "Quote never returns an empty word")
	}
}

func VH_shell_Join() {
	k := vCase("k")
	ss := make([]string, k)
	for i := range ss {
		ss[i] = string(vMkBytes(vCase("len"), "s"))
	}
	var first []string
	for round := 0; round < 2; round++ {
		j := Join(ss)
		vCover("join")
		fs, ok := Split(j)
		if round == 0 {
			first = fs
			// a different Split in between must not disturb a result already handed out
			other, _ := Split("x y 'z w' q")
			vAssert(len(other) == 4, "unrelated Split")
		} else {
			vAssert(len(first) == k, "an earlier Split result keeps its length after later calls")
			for i := range first {
				if i < k {
					vAssert(first[i] == ss[i], "an earlier Split result is not disturbed by later calls")
				}
			}
		}
		vAssert(ok, "Split(Join(ss)) is complete")
		vAssert(len(fs) == k, "Split(Join(ss)) has as many fields as ss")
		for i := range fs {
			if i < k {
				vAssert(fs[i] == ss[i], "Split(Join(ss)) returns ss")
			}
		}
		if k == 0 {
			vAssert(j == "", "Join of the empty list is the empty string")
		}
	}
}

// VH_shell_LongQuoted: a word that needs quoting and contains a long run of ordinary
// bytes (longer than bufio's default buffer) round-trips through Quote/Join and Split.
func VH_shell_LongQuoted() {
	n := vCase("n")
	b := make([]byte, 0, n+3)
	b = append(b, vByte("head"), ' ')
	for i := 0; i < n; i++ {
		b = append(b, 'x')
	}
	b = append(b, vByte("tail"))
	s := string(b)
	fs, ok := Split(Quote(s))
	vCover("long-quoted")
	vAssert(ok && len(fs) == 1, "Split(Quote(long)) is one complete field")
	if len(fs) == 1 {
		vAssert(fs[0] == s, "Split(Quote(long)) returns the word")
	}
	gs, ok := Split(Join([]string{"a", s, "b"}))
	vAssert(ok && len(gs) == 3, "Split(Join(...long...)) has three complete fields")
	if len(gs) == 3 {
		vAssert(gs[0] == "a" && gs[1] == s && gs[2] == "b", "Split(Join(...long...)) returns the list")
	}
}
