package shell

import (
	"io"
	"strings"
)

// C16: Split/Scanner vs an independent reference tokenizer written from the POSIX
// quoting rules (XCU 2.2): blanks and newlines separate words; backslash quotes the
// next byte (backslash-newline is a line continuation); single quotes are literal;
// inside double quotes backslash only quotes backslash and double quote (and
// newline as a continuation); other bytes are ordinary.

type vTok struct {
	text []byte
	end  int  // index just past the byte that ended the token (its delimiter), or len(input)
	done bool // token was ended by a delimiter (not by end of input)
}

func vIsBlank(c byte) bool { return c == ' ' || c == '\t' }

// vRefTokens returns the tokens and whether the input is complete (no open
// quotation or dangling backslash at the end).
func vRefTokens(in []byte) (toks []vTok, complete bool) {
	var cur []byte
	started := false
	mode := 0 // 0 unquoted, 1 single, 2 double
	pending := false
	i := 0
	for i < len(in) {
		c := in[i]
		i++
		switch mode {
		case 0:
			switch {
			case vIsBlank(c) || c == '\n':
				if started {
					toks = append(toks, vTok{text: cur, end: i, done: true})
					cur, started = nil, false
				}
			case c == '\\':
				if i == len(in) {
					pending = true
					started = true
				} else if in[i] == '\n' {
					i++ // line continuation: both bytes vanish
				} else {
					cur = append(cur, in[i])
					i++
					started = true
				}
			case c == '\'':
				mode, started = 1, true
			case c == '"':
				mode, started = 2, true
			default:
				cur = append(cur, c)
				started = true
			}
		case 1:
			if c == '\'' {
				mode = 0
			} else {
				cur = append(cur, c)
			}
		case 2:
			switch {
			case c == '"':
				mode = 0
			case c == '\\':
				if i == len(in) {
					pending = true
				} else if in[i] == '\n' {
					i++
				} else if in[i] == '\\' || in[i] == '"' {
					cur = append(cur, in[i])
					i++
				} else {
					cur = append(cur, '\\', in[i])
					i++
				}
			default:
				cur = append(cur, c)
			}
		}
	}
	if started {
		toks = append(toks, vTok{text: cur, end: len(in)})
	}
	return toks, mode == 0 && !pending
}

func vMkInput(n int) []byte {
	b := make([]byte, n)
	for i := range b {
		b[i] = vByte("in")
	}
	return b
}

func vSameText(got string, want []byte) bool {
	if len(got) != len(want) {
		return false
	}
	return got == string(want)
}

// VH_shell_Split: Split vs the reference, twice in a row (pooled scanner).
func VH_shell_Split() {
	in := vMkInput(vCase("n"))
	want, complete := vRefTokens(in)
	for round := 0; round < 2; round++ {
		got, ok := Split(string(in))
		vCover("split")
		vAssert(len(got) == len(want), "Split: number of fields equals the reference")
		for i := range got {
			if i < len(want) {
				vAssert(vSameText(got[i], want[i].text), "Split: field text equals the reference")
			}
		}
		vAssert(ok == complete, "Split: completeness flag equals the reference")
	}
}

// vChunkReader hands out the input in pieces of arbitrary sizes.
type vChunkReader struct {
	data []byte
	pos  int
}

func (r *vChunkReader) Read(p []byte) (int, error) {
	if r.pos >= len(r.data) {
		return 0, io.EOF
	}
	max := len(r.data) - r.pos
	if len(p) < max {
		max = len(p)
	}
	n := 1 + vChoice("chunk", max)
	copy(p, r.data[r.pos:r.pos+n])
	r.pos += n
	return n, nil
}

// VH_shell_Scanner: token by token, under arbitrary reader fragmentation; Rest after k tokens.
func VH_shell_Scanner() {
	in := vMkInput(vCase("n"))
	want, complete := vRefTokens(in)
	var rd io.Reader = &vChunkReader{data: in}
	if vCase("frag") == 0 {
		rd = strings.NewReader(string(in))
	}
	sc := NewScanner(rd)
	restAfter := vChoice("rest-after", len(want)+2) // len(want)+1 = never
	for i := 0; ; i++ {
		if i == restAfter {
			// Rest: exactly the unconsumed bytes
			consumed := 0
			if i > 0 {
				consumed = want[i-1].end
			}
			rest, err := io.ReadAll(sc.Rest())
			vAssert(err == nil, "Rest: reads without error")
			vCover("rest")
			vAssert(string(rest) == string(in[consumed:]), "Rest returns exactly the bytes not yet consumed")
			vAssert(!sc.Next() && !sc.Next(), "Next is false after Rest")
			// a scanner that was cut short with Rest can be Reset and used again
			sc.Reset(strings.NewReader(string(in)))
			for j := 0; ; j++ {
				more := sc.Next()
				vAssert(more == (j < len(want)), "after Rest and Reset: Next reports whether another token exists")
				if !more {
					break
				}
				vAssert(vSameText(sc.Text(), want[j].text), "after Rest and Reset: Text is the reference token")
			}
			vAssert(sc.Complete() == complete || len(want) > 0 && !want[len(want)-1].done && sc.Complete() == complete, "after Rest and Reset: Complete as for a fresh scan")
			vCover("rest-reset")
			return
		}
		more := sc.Next()
		vAssert(more == (i < len(want)), "Next reports whether another token exists")
		if !more {
			break
		}
		vAssert(vSameText(sc.Text(), want[i].text), "Text is the reference token")
		if i < len(want)-1 || want[i].done {
			vAssert(sc.Complete(), "Complete is true for a token ended by a delimiter")
		} else {
			vAssert(sc.Complete() == complete, "Complete reports whether the final token is complete")
		}
	}
	vCover("scanned")
	vAssert(sc.Err() == io.EOF, "Err is io.EOF at the end of input")
	vAssert(!sc.Next() && !sc.Next(), "Next stays false after the end of input")
	if len(want) == 0 || want[len(want)-1].done {
		vAssert(sc.Complete() == complete, "Complete after the end of input")
	}
}

// VH_shell_LongToken: a quoted section longer than bufio's default buffer, with
// symbolic bytes around it, against the reference tokenizer.
func VH_shell_LongToken() {
	n := vCase("n")
	q := byte('\'')
	if vCase("dq") == 1 {
		q = '"'
	}
	in := []byte{vByte("pre"), q}
	for i := 0; i < n; i++ {
		in = append(in, 'x')
	}
	in = append(in, q, vByte("post"), vByte("post"))
	want, complete := vRefTokens(in)
	got, ok := Split(string(in))
	vCover("long-token")
	vAssert(len(got) == len(want), "Split (long token): number of fields equals the reference")
	for i := range got {
		if i < len(want) {
			vAssert(vSameText(got[i], want[i].text), "Split (long token): field text equals the reference")
		}
	}
	vAssert(ok == complete, "Split (long token): completeness flag equals the reference")
}

func VT_shell_tables() {
	for _, s := range []string{"", "   ", `\ `, `a\ `, `\\a`, `"a\"b"`, `'\'`, "a\\\nb", "a \\\n  b\tc", "\"a\nb\"cd e'f'", "''", " a \"\" b ", "\\", "'", `'\''`, `"\\" '`, `a "b \"`, `"\$x"`, "a\\\n", "a\\\n b"} {
		f, ok := Split(s)
		vOut("split", s, f, ok)
	}
	for _, ss := range [][]string{nil, {"a"}, {"a "}, {"m='$USER'", "nop+", "$$"}, {"odd's", "x''", "$x':y"}, {"", "'"}, {"\x80\xff", "é x"}} {
		j := Join(ss)
		f, ok := Split(j)
		vOut("join", j, f, ok)
	}
	for _, s := range []string{"", "a", "a b", "it's", "'", "''", "a'b c", "*", "x=y"} {
		vOut("quote", Quote(s))
	}
}
