package heapq

// Concrete witnesses of known findings (public API only, no nondeterminism).

func vfIntCmp(a, b int) int {
	if a < b {
		return -1
	}
	if a > b {
		return 1
	}
	return 0
}

// VF_F1: pushUp compares with index i/2 instead of (i-1)/2. From the valid
// heap [1 10 2 11], Add(5) lands at index 4 and is compared with index 2 (2),
// not with its parent index 1 (10): the queue is left as [1 10 2 11 5].
func VF_F1() {
	q := NewWithData(vfIntCmp, []int{1, 10, 2, 11})
	q.Add(5)
	par, _ := q.Peek(1)
	ch, _ := q.Peek(4)
	vAssert(par <= ch, "F1: heap order after Add(5) to [1 10 2 11]")
}

// VF_F2: pop(i) only sifts down. Removing an interior offset can leave the
// moved last element above a larger parent... (kept for the record; fixed)
func VF_F2() {
	// heap: [0 10 1 11 12 2 3]; Remove(3) moves 3 to index 3 under parent 10.
	q := NewWithData(vfIntCmp, []int{0, 10, 1, 11, 12, 2, 3})
	q.Remove(3)
	par, _ := q.Peek(1)
	ch, _ := q.Peek(3)
	vAssert(par <= ch, "F2: heap order after Remove(3) from [0 10 1 11 12 2 3]")
}
