package heapq

// C06 harness: position reports track every element's true offset.

type vTracker struct {
	pos  []int  // last reported position by ID
	held []bool // whether the ID is currently in the queue
	p    []int  // priority by ID
}

func vNewTracker(maxID int) *vTracker {
	t := &vTracker{pos: make([]int, maxID), held: make([]bool, maxID), p: make([]int, maxID)}
	for i := range t.pos {
		t.pos[i] = -1
	}
	return t
}

func (t *vTracker) check(q *Queue[vElem], what string) {
	cnt := 0
	for id := range t.held {
		if !t.held[id] {
			continue
		}
		cnt++
		e, ok := q.Peek(t.pos[id])
		vAssert(ok, what+": reported position is inside the queue")
		vAssert(e.ID == id, what+": Peek(reported position) finds the element")
		vAssert(e.P == t.p[id], what+": element value intact")
	}
	vAssert(q.Len() == cnt, what+": Len equals number of held elements")
}

func VH_heapq_Positions() {
	n := vCase("n")
	cmp, _ := vPickCmp()
	const maxID = 16
	t := vNewTracker(maxID)
	q := New(cmp).Update(func(e vElem, p int) { t.pos[e.ID] = p })
	next := 0
	mk := func() vElem {
		e := vElem{vOrd("p"), next}
		t.p[next] = e.P
		next++
		return e
	}
	// initial contents through Set (arbitrary, not heap-ordered)
	vs := make([]vElem, n)
	for i := range vs {
		vs[i] = mk()
		t.held[vs[i].ID] = true
	}
	q.Set(vs)
	vCover("set")
	// Set copies its argument: the caller may reuse the slice
	for i, j := 0, len(vs)-1; i < j; i, j = i+1, j-1 {
		vs[i], vs[j] = vs[j], vs[i]
	}
	t.check(q, "after Set")
	for step := 0; step < vCase("steps"); step++ {
		switch vChoice("op", 6) {
		case 0: // Add
			e := mk()
			t.held[e.ID] = true
			pos := q.Add(e)
			vCover("add")
			vAssert(pos == t.pos[e.ID], "Add returns the reported offset of the new element")
			at, ok := q.Peek(pos)
			vAssert(vAll(ok, at.ID == e.ID), "Add returns the offset where Peek finds the new element")
		case 1: // Pop
			e, ok := q.Pop()
			if ok {
				vAssert(t.held[e.ID], "Pop returns a held element")
				t.held[e.ID] = false
			}
			vCover("pop")
		case 2: // Remove by reported position of a chosen held element
			var ids []int
			for id := range t.held {
				if t.held[id] {
					ids = append(ids, id)
				}
			}
			if len(ids) == 0 {
				vAssume(false)
			}
			id := ids[vChoice("which", len(ids))]
			e, ok := q.Remove(t.pos[id])
			vAssert(ok, "Remove(reported position) succeeds")
			vAssert(e.ID == id, "Remove(reported position) removes exactly that element")
			t.held[id] = false
			vCover("remove")
		case 3: // Set again with fresh elements
			for id := range t.held {
				t.held[id] = false
			}
			m := vChoice("m", 3)
			ws := make([]vElem, m)
			for i := range ws {
				ws[i] = mk()
				t.held[ws[i].ID] = true
			}
			q.Set(ws)
			vCover("set-again")
		case 4: // Reorder
			q.Reorder(vCmpDesc)
			vCover("reorder")
		case 5:
			q.Clear()
			for id := range t.held {
				t.held[id] = false
			}
			vCover("clear")
		}
		t.check(q, "after op")
	}
}

// VH_heapq_PositionsDeep: a valid heap of n elements installed through Set (no
// sifting needed), then Remove at the reported position of a chosen element and
// a second Remove: deep enough for a replacement to rise more than one level.
func VH_heapq_PositionsDeep() {
	n := vCase("n")
	cmp, dir := vPickCmp()
	t := vNewTracker(n + 2)
	q := New(cmp).Update(func(e vElem, p int) { t.pos[e.ID] = p })
	vs := make([]vElem, n)
	for i := range vs {
		vs[i] = vElem{vOrd("p"), i}
		t.p[i] = vs[i].P
		t.held[i] = true
	}
	vAssume(vIsHeapSlice(vs, dir))
	q.Set(vs)
	t.check(q, "after Set of a valid heap")
	for step := 0; step < 2; step++ {
		var ids []int
		for id := range t.held {
			if t.held[id] {
				ids = append(ids, id)
			}
		}
		id := ids[vChoice("which", len(ids))]
		e, ok := q.Remove(t.pos[id])
		vAssert(ok && e.ID == id, "Remove(reported position) removes exactly that element")
		t.held[id] = false
		t.check(q, "after deep Remove")
	}
	vCover("positions-deep")
}

func VT_heapq_script() {
	q := New(vfIntCmp)
	pos := map[int]int{}
	q.Update(func(v, p int) { pos[v] = p })
	var log []int
	for _, v := range []int{5, 3, 9, 1, 7, 2, 8} {
		log = append(log, q.Add(v))
	}
	vOut("addpos", log)
	log = nil
	for i := 0; i < 3; i++ {
		v, _ := q.Pop()
		log = append(log, v)
	}
	vOut("pops", log)
	r, _ := q.Remove(2)
	vOut("remove2", r, q.Len())
	var rest []int
	q.Each(func(v int) bool { rest = append(rest, v); return true })
	vOut("rest", rest)
	s := []int{4, 1, 3, 1, 5, 9, 2, 6}
	Sort(vfIntCmp, s)
	vOut("sorted", s)
	q.Set([]int{9, 8, 7, 6}).Reorder(func(a, b int) int { return vfIntCmp(b, a) })
	vOut("front", q.Front(), pos[9], pos[6])
}
