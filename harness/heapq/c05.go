package heapq

// C05 harnesses: heap order, conservation, observable minimum.
// Elements are {P, ID}: P is the priority (symbolic), ID a distinct concrete tag.

type vElem struct{ P, ID int }

func vCmpAsc(a, b vElem) int {
	if a.P < b.P {
		return -1
	}
	if a.P > b.P {
		return 1
	}
	return 0
}

func vCmpDesc(a, b vElem) int { return vCmpAsc(b, a) }

// vCmpAscWide orders like vCmpAsc with magnitudes other than 1.
func vCmpAscWide(a, b vElem) int {
	if a.P < b.P {
		return -3
	}
	if a.P > b.P {
		return 8
	}
	return 0
}

func vPickCmp() (func(a, b vElem) int, int) {
	switch vCase("dir") {
	case 0:
		return vCmpAsc, 1
	case 2:
		return vCmpAscWide, 1
	}
	return vCmpDesc, -1
}

// vLe reports a <= b in direction dir.
func vLe(a, b vElem, dir int) bool {
	if dir > 0 {
		return a.P <= b.P
	}
	return a.P >= b.P
}

func vMkData(n int, first int) []vElem {
	data := make([]vElem, n)
	for i := range data {
		data[i] = vElem{vOrd("p"), first + i}
	}
	return data
}

func vIsHeapSlice(data []vElem, dir int) bool {
	ok := true
	for i := 1; i < len(data); i++ {
		ok = vAll(ok, vLe(data[(i-1)/2], data[i], dir))
	}
	return ok
}

// vContents reads the queue through Peek only (exported API).
func vContents(q *Queue[vElem]) []vElem {
	out := make([]vElem, 0, q.Len())
	for i := 0; i < q.Len(); i++ {
		e, ok := q.Peek(i)
		vAssert(ok, "Peek(i) ok for i < Len")
		out = append(out, e)
	}
	return out
}

// vSameMultiset: IDs are distinct and concrete in 'want'; every element of got
// must be one of want (same ID and same P), each used exactly once.
func vSameMultiset(got, want []vElem) bool {
	if len(got) != len(want) {
		return false
	}
	used := make([]bool, len(want))
	ok := true
	for _, g := range got {
		found := false
		for j, w := range want {
			if w.ID == g.ID {
				if used[j] {
					return false
				}
				used[j] = true
				found = true
				ok = vAll(ok, g.P == w.P)
			}
		}
		if !found {
			return false
		}
	}
	return ok
}

func vIsMin(x vElem, held []vElem, dir int) bool {
	ok := true
	for _, h := range held {
		ok = vAll(ok, vLe(x, h, dir))
	}
	return ok
}

func vCheckQueue(q *Queue[vElem], want []vElem, dir int, what string) {
	got := vContents(q)
	vAssert(vSameMultiset(got, want), what+": contents conserved")
	vAssert(vIsHeapSlice(got, dir), what+": heap order")
	if len(want) > 0 {
		vAssert(vIsMin(q.Front(), want, dir), what+": Front is a minimum")
	}
	vAssert(q.Len() == len(want), what+": Len")
	vAssert(q.IsEmpty() == (len(want) == 0), what+": IsEmpty")
}

// vDrain pops k elements and checks each is a minimum of what is held.
func vDrain(q *Queue[vElem], held []vElem, k int, dir int, what string) {
	for step := 0; step < k && len(held) > 0; step++ {
		x, ok := q.Pop()
		vAssert(ok, what+": Pop ok on non-empty")
		vAssert(vIsMin(x, held, dir), what+": Pop returns a minimum of the held elements")
		// remove x from held by ID
		idx := -1
		for j, h := range held {
			if h.ID == x.ID {
				idx = j
			}
		}
		vAssert(idx >= 0, what+": popped element was held")
		held = append(append([]vElem{}, held[:idx]...), held[idx+1:]...)
	}
}

func vRemoveByID(held []vElem, id int) []vElem {
	out := make([]vElem, 0, len(held))
	for _, h := range held {
		if h.ID != id {
			out = append(out, h)
		}
	}
	return out
}

// VH_heapq_Step: one operation from an arbitrary valid heap (public API only:
// NewWithData keeps a valid heap unchanged).
func VH_heapq_Step() {
	n := vCase("n")
	cmp, dir := vPickCmp()
	data := vMkData(n, 100)
	vAssume(vIsHeapSlice(data, dir))
	held := append([]vElem{}, data...)
	q := NewWithData(cmp, data)
	vCheckQueue(q, held, dir, "NewWithData(valid heap)")
	switch vCase("op") {
	case 0: // Add
		x := vElem{vOrd("x"), 1}
		pos := q.Add(x)
		held = append(held, x)
		vCover("add")
		vCheckQueue(q, held, dir, "Add")
		at, ok := q.Peek(pos)
		vAssert(vAll(ok, at.ID == x.ID), "Add returns the offset of the new element")
	case 1: // Pop
		x, ok := q.Pop()
		vAssert(ok == (n > 0), "Pop reports emptiness")
		if n > 0 {
			vAssert(vIsMin(x, held, dir), "Pop returns a minimum")
			held = vRemoveByID(held, x.ID)
			vAssert(len(held) == n-1, "Pop returned a held element")
		}
		vCover("pop")
		vCheckQueue(q, held, dir, "Pop")
	case 2: // Remove(i)
		i := vRange("i", 0, n)
		want, wok := q.Peek(i)
		got, ok := q.Remove(i)
		vAssert(ok == wok, "Remove(i) ok iff Peek(i) ok")
		if ok {
			vAssert(vAll(got.ID == want.ID, got.P == want.P), "Remove(i) returns what Peek(i) showed")
			held = vRemoveByID(held, got.ID)
		}
		vCover("remove")
		vCheckQueue(q, held, dir, "Remove")
	case 3: // Set
		m := vCase("m")
		vs := vMkData(m, 200)
		q.Set(vs)
		vCover("set")
		held = append([]vElem{}, vs...)
		// Set copies its argument: the caller may reuse the slice
		for i, j := 0, len(vs)-1; i < j; i, j = i+1, j-1 {
			vs[i], vs[j] = vs[j], vs[i]
		}
		if len(vs) > 0 {
			vs[0] = vElem{}
		}
		vCheckQueue(q, held, dir, "Set")
	case 4: // Reorder to the opposite direction
		if dir > 0 {
			q.Reorder(vCmpDesc)
		} else {
			q.Reorder(vCmpAsc)
		}
		dir = -dir
		vCover("reorder")
		vCheckQueue(q, held, dir, "Reorder")
	case 5: // Clear
		q.Clear()
		held = nil
		vCover("clear")
		vCheckQueue(q, held, dir, "Clear")
	}
	if vCase("then") == 1 {
		// the queue stays usable: two more Adds, checked under the current comparison
		for i := 0; i < 2; i++ {
			y := vElem{vOrd("y"), 300 + i}
			q.Add(y)
			held = append(append([]vElem{}, held...), y)
		}
		vCover("then-add")
		vCheckQueue(q, held, dir, "Adds after the operation")
	}
	vDrain(q, held, vCase("drain"), dir, "after op")
}

// VH_heapq_NewWithData: arbitrary (non-heap) data is heapified.
func VH_heapq_NewWithData() {
	n := vCase("n")
	cmp, dir := vPickCmp()
	data := vMkData(n, 100)
	held := append([]vElem{}, data...)
	q := NewWithData(cmp, data)
	vCover("heapify")
	vCheckQueue(q, held, dir, "NewWithData(arbitrary)")
	vDrain(q, held, vCase("drain"), dir, "after NewWithData")
}

// VH_heapq_Sort: heapq.Sort leaves a sorted permutation.
func VH_heapq_Sort() {
	n := vCase("n")
	cmp, dir := vPickCmp()
	data := vMkData(n, 100)
	if sp := vCase("spare"); sp > 0 {
		// a short filled prefix of a much larger buffer
		back := make([]vElem, n, n+sp)
		copy(back, data)
		data = back
	}
	orig := append([]vElem{}, data...)
	Sort(cmp, data)
	vCover("sorted")
	vAssert(vSameMultiset(data, orig), "Sort: permutation of the input")
	ok := true
	for i := 1; i < len(data); i++ {
		ok = vAll(ok, vLe(data[i-1], data[i], dir))
	}
	vAssert(ok, "Sort: non-decreasing under cmp")
}

// VH_heapq_FarIndex: Peek and Remove for every offset in the int range.
func VH_heapq_FarIndex() {
	n := vCase("n")
	cmp, dir := vPickCmp()
	data := vMkData(n, 100)
	vAssume(vIsHeapSlice(data, dir))
	held := append([]vElem{}, data...)
	q := NewWithData(cmp, data)
	k := vInt("k") // any offset at all
	vCover("far-index")
	if k < 0 {
		p1, _ := vPanics(func() { q.Peek(k) })
		p2, _ := vPanics(func() { q.Remove(k) })
		vAssert(p1 && p2, "Peek and Remove panic for a negative offset, however far")
		vCheckQueue(q, held, dir, "after refused operations")
		return
	}
	want, wok := q.Peek(k)
	vAssert(wok == (k < n), "Peek(k) ok iff k < Len, for every k")
	got, ok := q.Remove(k)
	vAssert(ok == wok, "Remove(k) ok iff Peek(k) ok")
	if ok {
		vAssert(vAll(got.ID == want.ID, got.P == want.P), "Remove(k) returns what Peek(k) showed")
		held = vRemoveByID(held, got.ID)
	} else {
		vAssert(got == vElem{}, "Remove out of range returns zero")
	}
	vCheckQueue(q, held, dir, "Remove(far)")
}
