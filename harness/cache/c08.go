package cache

// C08: sequential LRU cache vs a reference LRU (list ordered by recency, oldest first).

type vEnt struct{ k, v int }

type vRefLRU struct {
	limit  int
	sized  bool
	es     []vEnt // oldest first
	evicts []vEnt // expected callback log
}

func (r *vRefLRU) sizeOf(v int) int {
	if r.sized {
		return v
	}
	return 1
}

func (r *vRefLRU) total() int {
	t := 0
	for _, e := range r.es {
		t += r.sizeOf(e.v)
	}
	return t
}

func (r *vRefLRU) find(k int) int {
	for i, e := range r.es {
		if e.k == k {
			return i
		}
	}
	return -1
}

// absent reports (without forking) that k equals no present key.
func (r *vRefLRU) absent(k int) bool {
	ok := true
	for _, e := range r.es {
		ok = vAll(ok, e.k != k)
	}
	return ok
}

func (r *vRefLRU) removeAt(i int) vEnt {
	e := r.es[i]
	out := append([]vEnt{}, r.es[:i]...)
	r.es = append(out, r.es[i+1:]...)
	return e
}

func (r *vRefLRU) put(k, v int) bool {
	sz := r.sizeOf(v)
	if sz > r.limit {
		return false
	}
	if i := r.find(k); i >= 0 {
		r.evicts = append(r.evicts, r.removeAt(i))
	}
	for r.total()+sz > r.limit {
		r.evicts = append(r.evicts, r.removeAt(0))
	}
	r.es = append(append([]vEnt{}, r.es...), vEnt{k, v})
	return true
}

func (r *vRefLRU) get(k int) (int, bool) {
	i := r.find(k)
	if i < 0 {
		return 0, false
	}
	e := r.removeAt(i)
	r.es = append(r.es, e)
	return e.v, true
}

func (r *vRefLRU) remove(k int) bool {
	i := r.find(k)
	if i < 0 {
		return false
	}
	r.evicts = append(r.evicts, r.removeAt(i))
	return true
}

type vCacheH struct {
	c   *Cache[int, int]
	log []vEnt
	ref *vRefLRU
}

func vNewCacheH(limit int, sized bool) *vCacheH {
	h := &vCacheH{ref: &vRefLRU{limit: limit, sized: sized}}
	cfg := LRU[int, int]().OnEvict(func(k, v int) { h.log = append(h.log, vEnt{k, v}) })
	if sized {
		cfg = cfg.WithSize(func(v int) int64 { return int64(v) })
	}
	h.c = New(int64(limit), cfg)
	return h
}

func (h *vCacheH) check(what string) {
	r := h.ref
	vAssert(h.c.Len() == len(r.es), what+": Len is the number of present keys")
	vAssert(int(h.c.Size()) == r.total(), what+": Size is the sum of the sizes of the present values")
	vAssert(int(h.c.Size()) <= r.limit, what+": Size never exceeds the limit")
	vAssert(len(h.log) == len(r.evicts), what+": the callback fired exactly once per departing entry")
	for i := range h.log {
		if i < len(r.evicts) {
			vAssert(vAll(h.log[i].k == r.evicts[i].k, h.log[i].v == r.evicts[i].v), what+": callbacks report the departing key and value, least recently used first")
		}
	}
	for _, e := range r.es {
		vAssert(h.c.Has(e.k), what+": every reference key is present (Has does not count as a use)")
	}
}

// op: 0 Put, 1 Get, 2 Has, 3 Remove, 4 Clear
func (h *vCacheH) apply(op int, what string) {
	r := h.ref
	switch op {
	case 0:
		k := vOrd("k")
		v := vRange("v", 0, r.limit+1)
		want := r.put(k, v)
		vAssert(h.c.Put(k, v) == want, what+": Put reports whether the value was stored")
		vCover("put")
	case 1:
		k := vOrd("k")
		wv, wok := r.get(k)
		gv, gok := h.c.Get(k)
		vAssert(gok == wok, what+": Get reports presence")
		vAssert(gv == wv, what+": Get returns the stored value")
		vCover("get")
	case 2:
		k := vOrd("k")
		vAssert(h.c.Has(k) == (r.find(k) >= 0), what+": Has reports presence")
		vCover("has")
	case 3:
		k := vOrd("k")
		want := r.remove(k)
		vAssert(h.c.Remove(k) == want, what+": Remove reports presence")
		vCover("remove")
	case 4:
		// Clear reports every entry; order is not part of the property: compare as sets
		n0 := len(h.log)
		cleared := r.es
		r.es = nil
		h.c.Clear()
		vAssert(len(h.log)-n0 == len(cleared), what+": Clear reports every entry exactly once")
		for _, e := range cleared {
			cnt := 0
			for _, l := range h.log[n0:] {
				cnt += vIte(vAll(l.k == e.k, l.v == e.v), 1, 0)
			}
			vAssert(cnt >= 1, what+": Clear reports each cleared entry")
		}
		r.evicts = append(append([]vEnt{}, r.evicts...), h.log[n0:]...)
		vCover("clear")
	}
	h.check(what)
}

func VH_cache_History() {
	h := vNewCacheH(vCase("limit"), vCase("sized") == 1)
	for s := 0; s < vCase("steps"); s++ {
		h.apply(vChoice("op", 5), "history")
	}
	vCover("history-done")
}

// VH_cache_Filled: fill with n distinct keys (unit sizes), touch some, remove one,
// then one more operation: exercises interior removals from the recency heap.
func VH_cache_Filled() {
	n := vCase("n")
	h := vNewCacheH(n, false)
	for i := 0; i < n; i++ {
		k := vOrd("k")
		vAssume(h.ref.absent(k))
		h.ref.put(k, 1)
		h.c.Put(k, 1)
	}
	// a few Gets and a Remove of chosen present keys (by recency rank)
	for s := 0; s < vCase("touches"); s++ {
		if len(h.ref.es) == 0 {
			break
		}
		e := h.ref.es[vChoice("which", len(h.ref.es))]
		switch vChoice("get-remove-put", 3) {
		case 2:
			k := vOrd("fresh")
			vAssume(h.ref.absent(k))
			want := h.ref.put(k, 1)
			vAssert(h.c.Put(k, 1) == want, "Put of a fresh key between touches")
			h.check("filled/put-between")
			continue
		case 0:
			h.ref.get(e.k)
			v, ok := h.c.Get(e.k)
			vAssert(ok && v == e.v, "Get of a present key")
		default:
			h.ref.remove(e.k)
			vAssert(h.c.Remove(e.k), "Remove of a present key")
		}
		h.check("filled/touch")
	}
	// now overflow: Puts of fresh keys must evict in exact LRU order
	for s := 0; s < vCase("puts"); s++ {
		k := vOrd("fresh")
		vAssume(h.ref.absent(k))
		want := h.ref.put(k, 1)
		vAssert(h.c.Put(k, 1) == want, "Put of a fresh key")
		h.check("filled/put")
	}
	vCover("filled")
}

func VT_cache_script() {
	var log []int
	c := New(3, LRU[int, int]().OnEvict(func(k, v int) { log = append(log, k, v) }))
	for i := 1; i <= 4; i++ {
		c.Put(i, i*10)
	}
	v, ok := c.Get(2)
	c.Put(5, 50)
	c.Remove(4)
	c.Put(6, 60)
	c.Put(7, 70)
	vOut("lru", log, v, ok, c.Len(), int(c.Size()), c.Has(2), c.Has(3))
	c.Clear()
	vOut("cleared", len(log), c.Len())
	s := New(10, LRU[int, int]().WithSize(func(v int) int64 { return int64(v) }))
	vOut("sized", s.Put(1, 4), s.Put(2, 7), s.Put(3, 11), s.Put(4, 0), int(s.Size()), s.Len())
}
