package cache

// VH_cache_Step: white-box step from an arbitrary valid recency heap: m entries
// with symbolic distinct keys and symbolic distinct access times laid out in any
// heap order, index consistent; one operation; then the whole eviction order is
// observed by overflowing the cache with fresh keys.
func VH_cache_Step() {
	m := vCase("m")
	const clock = 100
	data := make([]prioKey[int, int], m)
	for i := range data {
		data[i] = prioKey[int, int]{lastAccess: int64(vOrd("t")), key: vOrd("k"), value: 10 + i}
		vAssume(vAll(data[i].lastAccess >= 1, data[i].lastAccess <= clock))
		for j := 0; j < i; j++ {
			vAssume(vAll(data[j].key != data[i].key, data[j].lastAccess != data[i].lastAccess))
		}
		if i > 0 {
			vAssume(data[(i-1)/2].lastAccess < data[i].lastAccess)
		}
	}
	h := &vCacheH{ref: &vRefLRU{limit: m, sized: false}}
	h.ref.sized = false
	// reference recency order: insertion sort by access time
	for _, d := range data {
		pos := len(h.ref.es)
		for p, e := range h.ref.es {
			if d.lastAccess < vTimeOf(data, e.k) {
				pos = p
				break
			}
		}
		es := append([]vEnt{}, h.ref.es[:pos]...)
		es = append(es, vEnt{d.key, d.value})
		h.ref.es = append(es, h.ref.es[pos:]...)
	}
	lru := &lruStore[int, int]{present: make(map[int]int), clock: clock}
	for i, d := range data {
		lru.present[d.key] = i
	}
	lru.access = heapqNewWithData(data)
	lru.access.Update(func(v prioKey[int, int], pos int) { lru.present[v.key] = pos })
	h.c = &Cache[int, int]{store: lru, limit: int64(m), size: int64(m), count: m,
		sizeOf:  func(int) int64 { return 1 },
		onEvict: func(k, v int) { h.log = append(h.log, vEnt{k, v}) }}
	h.check("pre-state")
	h.apply(vCase("op"), "step")
	// a second use of an arbitrary key: a stale index entry would show here
	h.apply(1+2*vChoice("then", 2), "second step")
	// observe the complete eviction order
	for len(h.ref.es) > 0 && len(h.log) < 2*m+2 {
		k := vOrd("fresh")
		vAssume(h.ref.absent(k))
		for len(h.ref.es) < m { // refill to capacity first (no eviction)
			want := h.ref.put(k, 1)
			vAssert(h.c.Put(k, 1) == want, "refill Put")
			k = vOrd("fresh")
			vAssume(h.ref.absent(k))
		}
		want := h.ref.put(k, 1)
		vAssert(h.c.Put(k, 1) == want, "overflow Put")
		h.check("drain")
		if len(h.log) >= m+1 {
			break
		}
	}
	vCover("step-done")
}

func vTimeOf(data []prioKey[int, int], k int) int64 {
	for _, d := range data {
		if d.key == k {
			return d.lastAccess
		}
	}
	return 0
}

// VH_cache_Deep: a recency heap of four levels laid out so that the tail slot is
// older than the whole left subtree (ranks assigned right subtree first), keys
// symbolic; a Get or Remove of a chosen entry then forces the moved tail element
// to rise more than one level; afterwards a second Get and the complete eviction
// order are checked.
func VH_cache_Deep() {
	m := vCase("m")
	// heap index order: root, then the right subtree in BFS order, then the left subtree
	var order []int
	order = append(order, 0)
	for _, top := range []int{2, 1} {
		level := []int{top}
		for len(level) > 0 {
			var next []int
			for _, i := range level {
				if i < m {
					order = append(order, i)
					next = append(next, 2*i+1, 2*i+2)
				}
			}
			level = next
		}
	}
	data := make([]prioKey[int, int], m)
	for rank, idx := range order {
		data[idx] = prioKey[int, int]{lastAccess: int64(rank + 1), key: vOrd("k"), value: 10 + idx}
	}
	for i := range data {
		for j := 0; j < i; j++ {
			vAssume(data[j].key != data[i].key)
		}
		if i > 0 {
			vAssert(data[(i-1)/2].lastAccess < data[i].lastAccess, "harness layout is a valid heap")
		}
	}
	h := &vCacheH{ref: &vRefLRU{limit: m}}
	for _, idx := range order {
		h.ref.es = append(h.ref.es, vEnt{data[idx].key, data[idx].value})
	}
	lru := &lruStore[int, int]{present: make(map[int]int), clock: int64(m + 1)}
	for i, d := range data {
		lru.present[d.key] = i
	}
	lru.access = heapqNewWithData(data)
	lru.access.Update(func(v prioKey[int, int], pos int) { lru.present[v.key] = pos })
	h.c = &Cache[int, int]{store: lru, limit: int64(m), size: int64(m), count: m,
		sizeOf:  func(int) int64 { return 1 },
		onEvict: func(k, v int) { h.log = append(h.log, vEnt{k, v}) }}
	// first use: Get or Remove of the entry at a chosen heap offset
	target := data[vChoice("offset", m)].key
	if vCase("op") == 1 {
		wv, _ := h.ref.get(target)
		gv, ok := h.c.Get(target)
		vAssert(ok && gv == wv, "Get of a present key in a deep recency heap")
	} else {
		h.ref.remove(target)
		vAssert(h.c.Remove(target), "Remove of a present key in a deep recency heap")
	}
	h.check("deep step")
	// overflow the cache until everything that was present has been evicted
	for len(h.log) < m {
		k := vOrd("fresh")
		vAssume(h.ref.absent(k))
		want := h.ref.put(k, 1)
		vAssert(h.c.Put(k, 1) == want, "Put of a fresh key")
		if len(h.log)%3 == 0 {
			h.check("deep drain")
		}
	}
	h.check("deep drain end")
	vCover("deep-done")
}
