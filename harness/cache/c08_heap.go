package cache

import "github.com/creachadair/mds/heapq"

func heapqNewWithData(data []prioKey[int, int]) *heapq.Queue[prioKey[int, int]] {
	return heapq.NewWithData(comparePrio[int, int], data)
}
