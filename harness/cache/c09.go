package cache

import "sync"

// C09: cache.Cache under concurrent use. Threads are interpreted by the engine
// (vPar): every lock-granularity schedule is explored, every heap cell and map
// access is checked for happens-before ordering (data races), and each call's
// result must be explained by some sequential order of the calls that respects
// their real-time order and the LRU behaviour of C08.

type vCall struct {
	kind, k, v int // kind: 0 Put 1 Get 2 Has 3 Remove 4 Len 5 Size 6 Clear
	gotV       int
	gotB       bool
	start, end int
	thread     int
}

func vDoCall(c *Cache[int, int], r *vCall) {
	r.start = vStamp()
	switch r.kind {
	case 0:
		r.gotB = c.Put(r.k, r.v)
	case 1:
		r.gotV, r.gotB = c.Get(r.k)
	case 2:
		r.gotB = c.Has(r.k)
	case 3:
		r.gotB = c.Remove(r.k)
	case 4:
		r.gotV = c.Len()
	case 5:
		r.gotV = int(c.Size())
	case 6:
		c.Clear()
	}
	r.end = vStamp()
}

// vRefCall runs the call on the reference and reports whether the recorded result matches.
func vRefCall(ref *vRefLRU, r *vCall) bool {
	switch r.kind {
	case 0:
		return ref.put(r.k, r.v) == r.gotB
	case 1:
		v, ok := ref.get(r.k)
		return ok == r.gotB && v == r.gotV
	case 2:
		return (ref.find(r.k) >= 0) == r.gotB
	case 3:
		return ref.remove(r.k) == r.gotB
	case 4:
		return len(ref.es) == r.gotV
	case 5:
		return ref.total() == r.gotV
	default:
		ref.evicts = append(append([]vEnt{}, ref.evicts...), ref.es...)
		ref.es = nil
		return true
	}
}

func vCloneRef(r *vRefLRU) *vRefLRU {
	return &vRefLRU{limit: r.limit, sized: r.sized, es: append([]vEnt{}, r.es...), evicts: append([]vEnt{}, r.evicts...)}
}

// vLinearizable searches the orders of the remaining calls that respect program
// order and real-time order for one that the reference explains, including the
// final contents and the callback log.
func vLinearizable(ref *vRefLRU, calls [][]*vCall, next []int, c *Cache[int, int], log []vEnt) bool {
	done := true
	for t := range calls {
		if next[t] < len(calls[t]) {
			done = false
		}
	}
	if done {
		if c.Len() != len(ref.es) || int(c.Size()) != ref.total() {
			return false
		}
		for _, e := range ref.es {
			if !c.Has(e.k) {
				return false
			}
		}
		// every departing entry reported exactly once (as a multiset; Clear's order is free)
		if len(log) != len(ref.evicts) {
			return false
		}
		used := make([]bool, len(log))
		for _, e := range ref.evicts {
			found := false
			for i, l := range log {
				if !used[i] && l == e {
					used[i], found = true, true
					break
				}
			}
			if !found {
				return false
			}
		}
		return true
	}
	for t := range calls {
		if next[t] >= len(calls[t]) {
			continue
		}
		cand := calls[t][next[t]]
		// real-time order: cand may go next only if no other pending call returned before cand was invoked
		ok := true
		for u := range calls {
			if u != t && next[u] < len(calls[u]) && calls[u][next[u]].end < cand.start {
				ok = false
			}
		}
		if !ok {
			continue
		}
		r2 := vCloneRef(ref)
		if !vRefCall(r2, cand) {
			continue
		}
		next[t]++
		found := vLinearizable(r2, calls, next, c, log)
		next[t]--
		if found {
			return true
		}
	}
	return false
}

func vPickCall(thread, slot, kinds int, keys []int) *vCall {
	kind := vChoice("kind", kinds)
	if kinds == 3 {
		kind = []int{0, 1, 3}[kind]
	}
	r := &vCall{kind: kind, thread: thread}
	if kind == 0 {
		r.v = vOrd("val") // values are symbolic: equal or different, the solver decides
	}
	if kind <= 3 {
		r.k = keys[vChoice("key", len(keys))]
	}
	return r
}

func VH_cache_Par() {
	limit := vCase("limit")
	var log []vEnt
	var logMu sync.Mutex // the callback is the caller's code: it does its own locking
	c := New(int64(limit), LRU[int, int]().OnEvict(func(k, v int) {
		logMu.Lock()
		log = append(log, vEnt{k, v})
		logMu.Unlock()
	}))
	ref := &vRefLRU{limit: limit}
	// a small shared key space of symbolic keys (they may or may not coincide)
	keys := make([]int, vCase("keys"))
	for i := range keys {
		keys[i] = vOrd("key")
	}
	for i := 0; i < vCase("pre"); i++ {
		v := vOrd("preval")
		c.Put(keys[i%len(keys)], v)
		ref.put(keys[i%len(keys)], v)
	}
	log = nil
	ref.evicts = nil
	nthreads := vCase("threads")
	calls := make([][]*vCall, nthreads)
	for t := range calls {
		n := vCase("ops")
		if t == nthreads-1 {
			n = vCase("lastops")
		}
		for s := 0; s < n; s++ {
			calls[t] = append(calls[t], vPickCall(t, s, vCase("kinds"), keys))
		}
	}
	run := func(t int) func() {
		return func() {
			for _, r := range calls[t] {
				vDoCall(c, r)
			}
		}
	}
	switch nthreads {
	case 2:
		vPar(run(0), run(1))
	default:
		vPar(run(0), run(1), run(2))
	}
	vCover("par-done")
	for _, cs := range calls {
		for _, r := range cs {
			if r.kind == 5 {
				vAssert(r.gotV <= limit, "Size never exceeds the limit at any observation")
			}
		}
	}
	vAssert(int(c.Size()) <= limit, "Size never exceeds the limit after the calls")
	vAssert(vLinearizable(ref, calls, make([]int, nthreads), c, log), "every call's result is explained by some sequential order respecting real time (linearizable), with each departing entry reported exactly once")
}

// vStatStore is a caller-supplied Store that keeps plain (unsynchronised)
// statistics in every method, Check included: the documentation promises that a
// Cache serializes access to the methods of its Store, so this is legal.
type vStatStore struct {
	keys, vals []int
	calls      int
}

func (s *vStatStore) find(k int) int {
	for i, x := range s.keys {
		if x == k {
			return i
		}
	}
	return -1
}
func (s *vStatStore) Access(k int) (int, bool) { return s.Check(k) }
func (s *vStatStore) Check(k int) (int, bool) {
	s.calls++
	if i := s.find(k); i >= 0 {
		return s.vals[i], true
	}
	return 0, false
}
func (s *vStatStore) Store(k, v int) {
	s.calls++
	s.keys, s.vals = append(s.keys, k), append(s.vals, v)
}
func (s *vStatStore) Remove(k int) {
	s.calls++
	if i := s.find(k); i >= 0 {
		s.keys = append(append([]int{}, s.keys[:i]...), s.keys[i+1:]...)
		s.vals = append(append([]int{}, s.vals[:i]...), s.vals[i+1:]...)
	}
}
func (s *vStatStore) Evict() (int, int) {
	s.calls++
	k, v := s.keys[0], s.vals[0]
	s.keys, s.vals = s.keys[1:], s.vals[1:]
	return k, v
}

// VH_cache_ParStore: concurrent calls on a cache built on a caller-supplied
// store with unsynchronised bookkeeping: no data race inside the store (the
// cache must serialize every store method, the read-only ones included), and
// every store call is counted.
func VH_cache_ParStore() {
	st := &vStatStore{}
	c := New(int64(vCase("limit")), Config[int, int]{}.WithStore(st))
	keys := []int{vOrd("key"), vOrd("key")}
	c.Put(keys[0], 1)
	base := st.calls
	pick := func() func() {
		kind, k := vChoice("kind", 4), keys[vChoice("key", 2)]
		return func() {
			switch kind {
			case 0:
				c.Has(k)
			case 1:
				c.Get(k)
			case 2:
				c.Put(k, 7)
			default:
				c.Remove(k)
			}
		}
	}
	f, g := pick(), pick()
	vPar(f, g)
	vCover("par-store")
	vAssert(st.calls >= base+2, "every call reached the store and no update of its bookkeeping was lost")
}

// VH_cache_PanicUnlock: a caller-supplied size function panics for one value;
// the caller recovers. The failed call must not leave the cache locked, and the
// cache must be unchanged by it.
func VH_cache_PanicUnlock() {
	poison := 13
	c := New(4, LRU[int, int]().WithSize(func(v int) int64 {
		if v == poison {
			panic("cannot size this value")
		}
		return 1
	}))
	c.Put(1, 10)
	c.Put(2, 20)
	panicked, _ := vPanics(func() { c.Put(3, poison) })
	vAssert(panicked, "the size function's panic reaches the caller")
	vCover("panic-unlock")
	// any later call deadlocks if the lock was not released
	vAssert(c.Len() == 2 && c.Size() == 2, "a Put that panicked in the size function leaves the cache usable and unchanged")
	v, ok := c.Get(1)
	vAssert(ok && v == 10 && c.Has(2) && !c.Has(3), "contents are intact after the failed Put")
	vAssert(c.Put(3, 30) && c.Len() == 3, "the cache keeps working after the failed Put")
}
