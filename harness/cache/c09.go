package cache

import "sync"

// C09: cache.Cache under concurrent use. Threads are interpreted by the engine
// (vPar): every lock-granularity schedule is explored, every heap cell and map
// access is checked for happens-before ordering (data races), and each call's
// result must be explained by some sequential order of the calls that respects
// their real-time order and the LRU behaviour of C08.

type vCall struct {
	kind, k, v int // kind: 0 Put 1 Get 2 Has 3 Remove 4 Len 5 Size 6 Clear
	gotV       int
	gotB       bool
	start, end int
	thread     int
}

func vDoCall(c *Cache[int, int], r *vCall) {
	r.start = vStamp()
	switch r.kind {
	case 0:
		r.gotB = c.Put(r.k, r.v)
	case 1:
		r.gotV, r.gotB = c.Get(r.k)
	case 2:
		r.gotB = c.Has(r.k)
	case 3:
		r.gotB = c.Remove(r.k)
	case 4:
		r.gotV = c.Len()
	case 5:
		r.gotV = int(c.Size())
	case 6:
		c.Clear()
	}
	r.end = vStamp()
}

// vRefCall runs the call on the reference and reports whether the recorded result matches.
func vRefCall(ref *vRefLRU, r *vCall) bool {
	switch r.kind {
	case 0:
		return ref.put(r.k, r.v) == r.gotB
	case 1:
		v, ok := ref.get(r.k)
		return ok == r.gotB && v == r.gotV
	case 2:
		return (ref.find(r.k) >= 0) == r.gotB
	case 3:
		return ref.remove(r.k) == r.gotB
	case 4:
		return len(ref.es) == r.gotV
	case 5:
		return ref.total() == r.gotV
	default:
		ref.evicts = append(append([]vEnt{}, ref.evicts...), ref.es...)
		ref.es = nil
		return true
	}
}

func vCloneRef(r *vRefLRU) *vRefLRU {
	return &vRefLRU{limit: r.limit, sized: r.sized, es: append([]vEnt{}, r.es...), evicts: append([]vEnt{}, r.evicts...)}
}

// vLinearizable searches the orders of the remaining calls that respect program
// order and real-time order for one that the reference explains, including the
// final contents and the callback log.
func vLinearizable(ref *vRefLRU, calls [][]*vCall, next []int, c *Cache[int, int], log []vEnt) bool {
	done := true
	for t := range calls {
		if next[t] < len(calls[t]) {
			done = false
		}
	}
	if done {
		if c.Len() != len(ref.es) || int(c.Size()) != ref.total() {
			return false
		}
		for _, e := range ref.es {
			if !c.Has(e.k) {
				return false
			}
		}
		// every departing entry reported exactly once (as a multiset; Clear's order is free)
		if len(log) != len(ref.evicts) {
			return false
		}
		used := make([]bool, len(log))
		for _, e := range ref.evicts {
			found := false
			for i, l := range log {
				if !used[i] && l == e {
					used[i], found = true, true
					break
				}
			}
			if !found {
				return false
			}
		}
		return true
	}
	for t := range calls {
		if next[t] >= len(calls[t]) {
			continue
		}
		cand := calls[t][next[t]]
		// real-time order: cand may go next only if no other pending call returned before cand was invoked
		ok := true
		for u := range calls {
			if u != t && next[u] < len(calls[u]) && calls[u][next[u]].end < cand.start {
				ok = false
			}
		}
		if !ok {
			continue
		}
		r2 := vCloneRef(ref)
		if !vRefCall(r2, cand) {
			continue
		}
		next[t]++
		found := vLinearizable(r2, calls, next, c, log)
		next[t]--
		if found {
			return true
		}
	}
	return false
}

func vPickCall(thread, slot, kinds int, keys []int) *vCall {
	kind := vChoice("kind", kinds)
	if kinds == 3 {
		kind = []int{0, 1, 3}[kind]
	}
	r := &vCall{kind: kind, thread: thread}
	if kind == 0 {
		r.v = vOrd("val") // values are symbolic: equal or different, the solver decides
	}
	if kind <= 3 {
		r.k = keys[vChoice("key", len(keys))]
	}
	return r
}

func VH_cache_Par() {
	limit := vCase("limit")
	var log []vEnt
	var logMu sync.Mutex // the callback is the caller's code: it does its own locking
	c := New(int64(limit), LRU[int, int]().OnEvict(func(k, v int) {
		logMu.Lock()
		log = append(log, vEnt{k, v})
		logMu.Unlock()
	}))
	ref := &vRefLRU{limit: limit}
	// a small shared key space of symbolic keys (they may or may not coincide)
	keys := make([]int, vCase("keys"))
	for i := range keys {
		keys[i] = vOrd("key")
	}
	for i := 0; i < vCase("pre"); i++ {
		v := vOrd("preval")
		c.Put(keys[i%len(keys)], v)
		ref.put(keys[i%len(keys)], v)
	}
	log = nil
	ref.evicts = nil
	nthreads := vCase("threads")
	calls := make([][]*vCall, nthreads)
	for t := range calls {
		n := vCase("ops")
		if t == nthreads-1 {
			n = vCase("lastops")
		}
		for s := 0; s < n; s++ {
			calls[t] = append(calls[t], vPickCall(t, s, vCase("kinds"), keys))
		}
	}
	run := func(t int) func() {
		return func() {
			for _, r := range calls[t] {
				vDoCall(c, r)
			}
		}
	}
	switch nthreads {
	case 2:
		vPar(run(0), run(1))
	default:
		vPar(run(0), run(1), run(2))
	}
	vCover("par-done")
	for _, cs := range calls {
		for _, r := range cs {
			if r.kind == 5 {
				vAssert(r.gotV <= limit, "Size never exceeds the limit at any observation")
			}
		}
	}
	vAssert(int(c.Size()) <= limit, "Size never exceeds the limit after the calls")
	vAssert(vLinearizable(ref, calls, make([]int, nthreads), c, log), "every call's result is explained by some sequential order respecting real time (linearizable), with each departing entry reported exactly once")
}
