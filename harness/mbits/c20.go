package mbits

// C20 (mbits): LeadingZeroes / TrailingZeroes / Zero vs byte-wise definitions on a
// window inside a larger array with guard bytes; no access outside the window.

func vWindow() (arr []byte, data []byte, off, n int) {
	off = vCase("off")
	n = vCase("n")
	arr = make([]byte, off+n+9)
	for i := range arr {
		arr[i] = vByte("b")
	}
	return arr, arr[off : off+n], off, n
}

func VH_mbits_Leading() {
	arr, data, _, n := vWindow()
	orig := append([]byte{}, arr...)
	got := LeadingZeroes(data)
	ref := 0
	for ref < n && data[ref] == 0 {
		ref++
	}
	vCover("leading")
	vAssert(got == ref, "LeadingZeroes equals the byte-by-byte count")
	for i := range arr {
		vAssert(arr[i] == orig[i], "LeadingZeroes does not write")
	}
}

func VH_mbits_Trailing() {
	arr, data, _, n := vWindow()
	orig := append([]byte{}, arr...)
	got := TrailingZeroes(data)
	ref := 0
	for ref < n && data[n-1-ref] == 0 {
		ref++
	}
	vCover("trailing")
	vAssert(got == ref, "TrailingZeroes equals the byte-by-byte count")
	for i := range arr {
		vAssert(arr[i] == orig[i], "TrailingZeroes does not write")
	}
}

func VH_mbits_Zero() {
	arr, data, off, n := vWindow()
	orig := append([]byte{}, arr...)
	got := Zero(data)
	vCover("zero")
	vAssert(got == n, "Zero returns the length of the slice")
	for i := range arr {
		if i >= off && i < off+n {
			vAssert(arr[i] == 0, "Zero clears every byte of the slice")
		} else {
			vAssert(arr[i] == orig[i], "Zero does not touch bytes outside the slice")
		}
	}
}

func VT_mbits_tables() {
	for _, n := range []int{0, 1, 5, 8, 9, 16, 17, 23} {
		for _, z := range []int{0, 1, 7, 8, 9, 16} {
			buf := make([]byte, n)
			for i := range buf {
				buf[i] = 0xff
			}
			for i := 0; i < z && i < n; i++ {
				buf[i] = 0
				buf[n-1-i] = 0
			}
			vOut("lz", n, z, LeadingZeroes(buf), TrailingZeroes(buf))
		}
		buf := make([]byte, n+2)
		for i := range buf {
			buf[i] = byte(i + 1)
		}
		r := Zero(buf[1 : n+1])
		vOut("zero", r, buf)
	}
}
