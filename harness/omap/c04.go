package omap

import "cmp"

// C04: omap.Map vs a reference sorted map.

type vKV struct{ k, v int }

type vRefMap struct {
	rev bool
	es  []vKV // sorted by the map's order
}

func (r *vRefMap) less(a, b int) bool {
	if r.rev {
		return b < a
	}
	return a < b
}

func (r *vRefMap) find(k int) (int, bool) {
	for i, e := range r.es {
		if e.k == k {
			return i, true
		}
		if r.less(k, e.k) {
			return i, false
		}
	}
	return len(r.es), false
}

func (r *vRefMap) set(k, v int) bool {
	i, ok := r.find(k)
	if ok {
		r.es[i].v = v
		return false
	}
	es := make([]vKV, 0, len(r.es)+1)
	es = append(es, r.es[:i]...)
	es = append(es, vKV{k, v})
	r.es = append(es, r.es[i:]...)
	return true
}

func (r *vRefMap) del(k int) bool {
	i, ok := r.find(k)
	if !ok {
		return false
	}
	es := make([]vKV, 0, len(r.es))
	es = append(es, r.es[:i]...)
	r.es = append(es, r.es[i+1:]...)
	return true
}

func vNewMap(rev bool) Map[int, int] {
	if vCase("wide") == 1 {
		// same order as cmp.Compare (or its reverse), magnitudes other than 1
		return NewFunc[int, int](func(a, b int) int {
			if rev {
				a, b = b, a
			}
			if a < b {
				return -4
			}
			if a > b {
				return 9
			}
			return 0
		})
	}
	if rev {
		return NewFunc[int, int](func(a, b int) int { return cmp.Compare(b, a) })
	}
	return New[int, int]()
}

func vCheckMap(m Map[int, int], r *vRefMap, what string) {
	n := len(r.es)
	vAssert(m.Len() == n, what+": Len")
	ks := m.Keys()
	vAssert(len(ks) == n, what+": Keys length")
	for i := range ks {
		vAssert(ks[i] == r.es[i].k, what+": Keys in order")
	}
	// forward from First
	i := 0
	for it := m.First(); it.IsValid(); it.Next() {
		vAssert(i < n, what+": First/Next visits no more than Len entries")
		vAssert(vAll(it.Key() == r.es[i].k, it.Value() == r.es[i].v), what+": First/Next visits the entries in ascending order")
		i++
	}
	vAssert(i == n, what+": First/Next visits every entry")
	// backward from Last
	i = n - 1
	for it := m.Last(); it.IsValid(); it.Prev() {
		vAssert(i >= 0, what+": Last/Prev visits no more than Len entries")
		vAssert(vAll(it.Key() == r.es[i].k, it.Value() == r.es[i].v), what+": Last/Prev visits the entries in descending order")
		i--
	}
	vAssert(i == -1, what+": Last/Prev visits every entry")
}

func vProbeMap(m Map[int, int], r *vRefMap, what string) {
	y := vOrd("probe")
	pos, present := r.find(y)
	got, ok := m.GetOK(y)
	vAssert(ok == present, what+": GetOK reports presence")
	if present {
		vAssert(got == r.es[pos].v, what+": GetOK returns the latest value")
		vAssert(m.Get(y) == r.es[pos].v, what+": Get returns the latest value")
	} else {
		vAssert(got == 0 && m.Get(y) == 0, what+": Get of an absent key is zero")
	}
	// re-seeking an iterator that is already positioned behaves like a fresh Seek
	for _, old := range []*Iter[int, int]{m.First(), m.Last()} {
		re := old.Seek(y)
		vAssert(re == old, what+": Iter.Seek returns its receiver")
		vAssert(re.IsValid() == (pos < len(r.es)), what+": re-Seek of a positioned iterator is valid iff some key >= target")
		if pos < len(r.es) {
			vAssert(re.Key() == r.es[pos].k, what+": re-Seek of a positioned iterator lands on the first key >= target")
		}
	}
	// Seek(y): first key >= y (in the map's order)
	it := m.Seek(y)
	vAssert(it.IsValid() == (pos < len(r.es)), what+": Seek is valid iff some key >= target")
	if pos < len(r.es) {
		vAssert(vAll(it.Key() == r.es[pos].k, it.Value() == r.es[pos].v), what+": Seek lands on the first key >= target")
		if vChoice("seek-dir", 2) == 0 {
			i := pos
			for ; it.IsValid(); it.Next() {
				vAssert(i < len(r.es) && it.Key() == r.es[i].k, what+": Next from Seek continues ascending")
				i++
			}
			vAssert(i == len(r.es), what+": Next from Seek reaches the end and becomes invalid")
		} else {
			i := pos
			for ; it.IsValid(); it.Prev() {
				vAssert(i >= 0 && it.Key() == r.es[i].k, what+": Prev from Seek continues descending")
				i--
			}
			vAssert(i == -1, what+": Prev from Seek reaches the start and becomes invalid")
		}
	}
}

func VH_omap_History() {
	rev := vCase("rev") == 1
	m := vNewMap(rev)
	r := &vRefMap{rev: rev}
	for s := 0; s < vCase("steps"); s++ {
		switch vChoice("op", 3) {
		case 0:
			k, v := vOrd("k"), vOrd("v")
			want := r.set(k, v)
			vAssert(m.Set(k, v) == want, "Set reports true exactly for new keys")
			vCover("set")
		case 1:
			k := vOrd("k")
			want := r.del(k)
			vAssert(m.Delete(k) == want, "Delete reports whether the key was present")
			vCover("delete")
		case 2:
			m.Clear()
			r.es = nil
			vCover("clear")
		}
		vCheckMap(m, r, "history")
	}
	vProbeMap(m, r, "history end")
}

// VH_omap_Filled: a map filled with n distinct symbolic keys (every insertion
// order), then one Set/Delete and the probes.
func VH_omap_Filled() {
	rev := vCase("rev") == 1
	m := vNewMap(rev)
	r := &vRefMap{rev: rev}
	n := vCase("n")
	for i := 0; i < n; i++ {
		k, v := vOrd("k"), vOrd("v")
		_, dup := r.find(k)
		vAssume(!dup)
		r.set(k, v)
		m.Set(k, v)
	}
	switch vCase("op") {
	case 0:
		k, v := vOrd("k2"), vOrd("v2")
		want := r.set(k, v)
		vAssert(m.Set(k, v) == want, "Set reports true exactly for new keys")
	case 1:
		k := vOrd("k2")
		want := r.del(k)
		vAssert(m.Delete(k) == want, "Delete reports whether the key was present")
	}
	vCover("filled")
	vCheckMap(m, r, "filled")
	vProbeMap(m, r, "filled")
}

// VH_omap_Drain: grow to n keys (ascending symbolic keys, so no forks), then delete
// them one at a time in a chosen pattern: reaches the delete-side rebuilds of the
// underlying tree that small maps never trigger.
func VH_omap_Drain() {
	n := vCase("n")
	m := vNewMap(false)
	r := &vRefMap{}
	keys := make([]int, n)
	for i := range keys {
		keys[i] = vOrd("k")
		if i > 0 {
			vAssume(keys[i-1] < keys[i])
		}
		m.Set(keys[i], i)
		r.es = append(r.es, vKV{keys[i], i})
	}
	vCheckMap(m, r, "grown")
	order := vCase("order")
	for step := 0; step < n; step++ {
		var k int
		switch order {
		case 0:
			k = keys[step] // ascending
		case 1:
			k = keys[n-1-step] // descending
		default:
			k = keys[(step*7+3)%n] // scattered (n coprime to 7)
		}
		i := -1
		for j, e := range r.es {
			if e.k == k {
				i = j
			}
		}
		if i < 0 {
			continue
		}
		r.es = append(append([]vKV{}, r.es[:i]...), r.es[i+1:]...)
		vAssert(m.Delete(k), "Delete of a present key during a drain")
		vAssert(m.Len() == len(r.es), "Len during a drain")
		if step%4 == 3 || len(r.es) <= 2 {
			vCheckMap(m, r, "during drain")
		}
	}
	vCover("drained")
	vCheckMap(m, r, "drained")
}

// vFKeyOf maps a choice index to a float64 key; index 0 is NaN (floats are
// concrete in the engine: every value is a forked choice).
func vFKeyOf(i int) float64 {
	var zero float64
	if i == 0 {
		return zero / zero
	}
	return float64(i - 2)
}

func vFKeyIs(a, b float64) bool { return a == b || a != a && b != b }

// VH_omap_FloatKeys: the natural order of an ordered key type is cmp.Compare,
// under which NaN is a proper key (below everything, equal to itself). A short
// history of Set/Delete over float64 keys including NaN against a reference
// kept sorted by cmp.Compare.
func VH_omap_FloatKeys() {
	m := New[float64, int]()
	var keys []float64
	var vals []int
	find := func(k float64) (int, bool) {
		for i, x := range keys {
			if c := cmp.Compare(k, x); c == 0 {
				return i, true
			} else if c < 0 {
				return i, false
			}
		}
		return len(keys), false
	}
	for st := 0; st < vCase("steps"); st++ {
		k := vFKeyOf(vChoice("key", 4))
		pos, present := find(k)
		if vChoice("delete", 2) == 1 {
			vAssert(m.Delete(k) == present, "Delete reports whether the key was present (float keys)")
			if present {
				keys = append(append([]float64{}, keys[:pos]...), keys[pos+1:]...)
				vals = append(append([]int{}, vals[:pos]...), vals[pos+1:]...)
			}
		} else {
			vAssert(m.Set(k, 10+st) == !present, "Set reports true exactly for new keys (float keys)")
			if present {
				vals = append([]int{}, vals...)
				vals[pos] = 10 + st
			} else {
				keys = append(append(append([]float64{}, keys[:pos]...), k), keys[pos:]...)
				vals = append(append(append([]int{}, vals[:pos]...), 10+st), vals[pos:]...)
			}
		}
		vAssert(m.Len() == len(keys), "Len (float keys)")
		got := m.Keys()
		vAssert(len(got) == len(keys), "Keys: one per entry (float keys)")
		for i := range got {
			if i < len(keys) {
				vAssert(vFKeyIs(got[i], keys[i]), "Keys in ascending natural order (float keys)")
			}
		}
		for i, x := range keys {
			v, ok := m.GetOK(x)
			vAssert(ok && v == vals[i], "GetOK finds every key with its latest value (float keys)")
		}
		i := 0
		for it := m.First(); it.IsValid(); it.Next() {
			vAssert(i < len(keys) && vFKeyIs(it.Key(), keys[i]) && it.Value() == vals[i], "First/Next visit the entries in order (float keys)")
			i++
		}
		vAssert(i == len(keys), "First/Next visit every entry (float keys)")
		t := vFKeyOf(vChoice("seek", 4))
		tp, _ := find(t)
		it := m.Seek(t)
		vAssert(it.IsValid() == (tp < len(keys)), "Seek: valid exactly when some key is >= the target (float keys)")
		if it.IsValid() && tp < len(keys) {
			vAssert(vFKeyIs(it.Key(), keys[tp]), "Seek: first key >= the target (float keys)")
		}
	}
	vCover("float-keys")
}

func VH_omap_Zero() {
	var z Map[int, int]
	vAssert(z.Len() == 0, "zero Map: Len 0")
	vAssert(z.Get(1) == 0, "zero Map: Get zero")
	_, ok := z.GetOK(1)
	vAssert(!ok, "zero Map: GetOK false")
	vAssert(len(z.Keys()) == 0, "zero Map: no keys")
	vAssert(!z.Delete(1), "zero Map: Delete false")
	z.Clear()
	vAssert(!z.First().IsValid() && !z.Last().IsValid() && !z.Seek(1).IsValid(), "zero Map: iterators invalid")
	vAssert(z.First().Key() == 0 && z.First().Value() == 0, "zero Map: iterator yields zero")
	vAssert(z.String() == "omap[]", "zero Map: String")
	p, _ := vPanics(func() { z.Set(1, 1) })
	vAssert(p, "zero Map: Set panics")
	// copies share contents
	m := New[int, int]()
	c := m
	c.Set(1, 10)
	vAssert(m.Get(1) == 10 && m.Len() == 1, "copies of a Map share contents")
	m.Delete(1)
	vAssert(c.Len() == 0, "copies of a Map share contents (delete)")
	vCover("zero")
}

func VH_omap_String() {
	m := New[int, int]()
	a, b := vRange("a", 0, 9), vRange("b", 0, 9)
	va, vb := vRange("va", 0, 9), vRange("vb", 0, 9)
	m.Set(a, va)
	m.Set(b, vb)
	s := m.String()
	ca, cb, cva, cvb := vConcrete(a), vConcrete(b), vConcrete(va), vConcrete(vb)
	d := func(x int) string { return string(rune('0' + x)) }
	var want string
	switch {
	case ca == cb:
		want = "omap[" + d(ca) + ":" + d(cvb) + "]"
	case ca < cb:
		want = "omap[" + d(ca) + ":" + d(cva) + " " + d(cb) + ":" + d(cvb) + "]"
	default:
		want = "omap[" + d(cb) + ":" + d(cvb) + " " + d(ca) + ":" + d(cva) + "]"
	}
	vCover("string")
	vAssert(s == want, "String lists the entries in key order")
}

func VT_omap_script() {
	m := New[int, int]()
	var rs []bool
	for i, k := range []int{5, 3, 8, 1, 4, 7, 9, 3, 5} {
		rs = append(rs, m.Set(k, i))
	}
	vOut("set", rs, m.Keys(), m.Len(), m.String())
	vOut("get", m.Get(3), m.Get(6))
	it := m.Seek(6)
	vOut("seek6", it.IsValid(), it.Key(), it.Value())
	it = m.Seek(10)
	vOut("seek10", it.IsValid())
	vOut("del", m.Delete(5), m.Delete(5), m.Keys())
	r := NewFunc[int, int](func(a, b int) int { return cmp.Compare(b, a) })
	for _, k := range []int{1, 2, 3} {
		r.Set(k, k*k)
	}
	vOut("rev", r.Keys(), r.String(), r.Seek(2).Key())
}
