package ring

// C10 (ring): Of/New/Join/Pop rearrange elements into the documented cycles.

// vCycle returns the IDs met walking Next from r until r comes round again.
func vCycle(r *Ring[int]) []int {
	var out []int
	cur := r
	for i := 0; i < 64; i++ {
		out = append(out, cur.Value)
		cur = cur.Next()
		if cur == r {
			return out
		}
	}
	vAssert(false, "Next does not come back to the start (broken cycle)")
	return out
}

func vRot(ids []int, start int) []int {
	out := make([]int, 0, len(ids))
	for i := range ids {
		out = append(out, ids[(start+i)%len(ids)])
	}
	return out
}

// vCheckCycle: the cycle through elem is exactly want (starting at elem's ID), with consistent links.
func vCheckCycle(elem *Ring[int], want []int, what string) {
	got := vCycle(elem)
	vAssert(len(got) == len(want), what+": cycle has the documented members")
	for i := range got {
		if i < len(want) {
			vAssert(got[i] == want[i], what+": cycle order as documented")
		}
	}
	// Next and Prev mutually inverse all the way round
	cur := elem
	for range want {
		vAssert(cur.Next().Prev() == cur && cur.Prev().Next() == cur, what+": Next and Prev are mutually inverse")
		cur = cur.Next()
	}
	vAssert(elem.Len() == len(want), what+": Len")
	var each []int
	elem.Each(func(v int) bool { each = append(each, v); return true })
	vAssert(len(each) == len(want), what+": Each yields every element once")
	for i := range each {
		if i < len(want) {
			vAssert(each[i] == want[i], what+": Each in circular order")
		}
	}
	n := len(want)
	k := vRange("k", -n-2, n+2)
	at := elem.At(k)
	pv, pok := elem.Peek(k)
	inside := vAll(k > -n, k < n)
	outside := vAny(k < -n, k > n)
	vAssert(vImplies(inside, at != nil), what+": At(k) non-nil for |k| < Len")
	vAssert(vImplies(outside, at == nil), what+": At(k) nil for |k| > Len")
	vAssert(vImplies(inside, pok), what+": Peek(k) ok for |k| < Len")
	vAssert(vImplies(outside, !pok && pv == 0), what+": Peek(k) zero,false for |k| > Len")
	for c := -n + 1; c < n; c++ {
		j := ((c % n) + n) % n
		vAssert(vImplies(k == c, pv == want[j]), what+": Peek(k) is the element k steps away")
		if at != nil {
			vAssert(vImplies(k == c, at.Value == want[j]), what+": At(k) is the element k steps away")
		}
	}
}

func vIDs(lo, n int) []int {
	out := make([]int, n)
	for i := range out {
		out[i] = lo + i
	}
	return out
}

func VH_ring_Of() {
	n := vCase("n")
	r := Of(vIDs(1, n)...)
	if n == 0 {
		vAssert(r == nil && r.Len() == 0 && r.IsEmpty(), "Of() is the empty ring")
		vAssert(r.At(0) == nil, "At on the empty ring is nil")
		vAssert(New[int](0) == nil && New[int](-1) == nil, "New(n<=0) is nil")
		return
	}
	vCover("ring-of")
	vCheckCycle(r, vIDs(1, n), "Of")
	z := New[int](n)
	vAssert(z.Len() == n, "New(n) has n elements")
}

func VH_ring_JoinSame() {
	n := vCase("n")
	ids := vIDs(1, n)
	r := Of(ids...)
	i, j := vChoice("i", n), vChoice("j", n)
	ri, sj := r.At(i), r.At(j)
	if n == 1 {
		ri, sj = r, r
	}
	out := ri.Join(sj)
	vCover("ring-join-same")
	// elements strictly between r and s (going forward) are spliced out
	var between, remain []int
	d := ((j-i)%n + n) % n
	remain = append(remain, ids[i])
	if d == 0 {
		// r == s: nothing changes
		vAssert(out == nil, "Join(r, r) returns nil")
		vCheckCycle(ri, vRot(ids, i), "Join(r,r) leaves the ring unchanged")
		return
	}
	for k := 1; k < d; k++ {
		between = append(between, ids[(i+k)%n])
	}
	for k := d; k < n; k++ {
		remain = append(remain, ids[(i+k)%n])
	}
	if len(between) == 0 {
		vAssert(out == nil, "Join of adjacent elements returns nil")
	} else {
		vAssert(out != nil, "Join returns the spliced-out ring")
		if out != nil {
			vCheckCycle(out, between, "spliced-out ring [r2..ri]")
		}
	}
	vCheckCycle(ri, remain, "remaining ring [r1 s1 ... rn]")
}

func VH_ring_JoinOther() {
	n, m := vCase("n"), vCase("m")
	rid, sid := vIDs(1, n), vIDs(101, m)
	r, s := Of(rid...), Of(sid...)
	i, j := vChoice("i", n), vChoice("j", m)
	ri, sj := r.At(i), s.At(j)
	if n == 1 {
		ri = r
	}
	if m == 1 {
		sj = s
	}
	out := ri.Join(sj)
	vCover("ring-join-other")
	// [r1 s1 ... sm r2 ... rn]
	want := []int{rid[i]}
	want = append(want, vRot(sid, j)...)
	want = append(want, vRot(rid, i)[1:]...)
	vCheckCycle(ri, want, "Join of different rings")
	// returns the ring starting at r2
	vAssert(out != nil, "Join of different rings returns a ring")
	if out != nil {
		if n > 1 {
			vAssert(out.Value == rid[(i+1)%n], "Join returns the ring starting at r2")
		}
		vAssert(out.Len() == n+m, "returned ring is the joined ring")
	}
}

func VH_ring_Pop() {
	n := vCase("n")
	ids := vIDs(1, n)
	r := Of(ids...)
	i := vChoice("i", n)
	e := r.At(i)
	if n == 1 {
		e = r
	}
	nb := e.Next()
	got := e.Pop()
	vCover("ring-pop")
	vAssert(got == e, "Pop returns its receiver")
	vCheckCycle(e, []int{ids[i]}, "popped element is a singleton ring")
	if n > 1 {
		vCheckCycle(nb, vRot(ids, i)[1:], "rest of the ring after Pop")
	}
	var z *Ring[int]
	vAssert(z.Pop() == nil, "Pop of the empty ring is nil")
}

func VT_ring_script() {
	r := Of(1, 2, 3, 4, 5, 6)
	x := r.At(1).Join(r.At(4))
	vOut("joined", vCycle(r), vCycle(x), r.Len(), x.Len())
	s := Of(10, 20)
	y := r.Join(s)
	vOut("spliced", vCycle(r), y.Value)
	p := r.At(2).Pop()
	v, ok := r.Peek(-1)
	vOut("pop", p.Value, p.Len(), vCycle(r), v, ok, r.At(9) == nil)
}

// VH_ring_FarOffsets: At/Peek for every offset in the int range (the cycle
// checks above stay within n+2 of the ring because they run after every step).
func VH_ring_FarOffsets() {
	n := vCase("n")
	want := vIDs(10, n)
	r := Of(want...)
	elem := r
	if n > 1 {
		elem = r.At(vChoice("from", n))
		want = append(append([]int{}, want[elem.Value-10:]...), want[:elem.Value-10]...)
	}
	k := vInt("k") // any offset at all, including the extreme values of int
	at := elem.At(k)
	pv, pok := elem.Peek(k)
	vCover("ring-far-offsets")
	inside := vAll(k > -n, k < n)
	outside := vAny(k < -n, k > n)
	vAssert(vImplies(inside, at != nil), "At(k) non-nil for |k| < Len")
	vAssert(vImplies(outside, at == nil), "At(k) nil for |k| > Len, for every k")
	vAssert(vImplies(inside, pok), "Peek(k) ok for |k| < Len")
	vAssert(vImplies(outside, !pok && pv == 0), "Peek(k) zero,false for |k| > Len, for every k")
	for c := -n + 1; c < n; c++ {
		j := ((c % n) + n) % n
		vAssert(vImplies(k == c, pv == want[j]), "Peek(k) is the element k steps away")
	}
	var nilRing *Ring[int]
	vAssert(nilRing.At(k) == nil, "At on the nil ring is nil for every k")
}
