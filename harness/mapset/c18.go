package mapset

// C18: mapset.Set vs mathematical sets (reference: slice of distinct symbolic values).

func vRefHas(ref []int, x int) bool {
	for _, r := range ref {
		if r == x {
			return true
		}
	}
	return false
}

func vRefAdd(ref []int, xs ...int) []int {
	for _, x := range xs {
		if !vRefHas(ref, x) {
			ref = append(append([]int{}, ref...), x)
		}
	}
	return ref
}

func vRefDel(ref []int, xs ...int) []int {
	var out []int
	for _, r := range ref {
		if !vRefHas(xs, r) {
			out = append(out, r)
		}
	}
	return out
}

// vOperand builds one of: nil set, empty non-nil set, 1-, 2- or 3-member set of symbolic values.
func vOperand(kind int, name string) (Set[int], []int) {
	switch kind {
	case 0:
		return nil, nil
	case 1:
		return New[int](), nil
	}
	var ref []int
	for i := 0; i < kind-1; i++ {
		ref = vRefAdd(ref, vOrd(name))
	}
	// note: equal symbolic values collapse; the set is built from the same values
	s := New(ref...)
	return s, ref
}

func vCheckSet(s Set[int], ref []int, what string) {
	vAssert(s.Len() == len(ref), what+": Len equals the reference")
	vAssert(s.IsEmpty() == (len(ref) == 0), what+": IsEmpty")
	p := vOrd("probe")
	vAssert(s.Has(p) == vRefHas(ref, p), what+": Has(probe) equals reference membership")
	for _, r := range ref {
		vAssert(s.Has(r), what+": every reference member is present")
	}
}

// VH_mapset_Ops: membership and Len after short operation sequences.
func VH_mapset_Ops() {
	s, ref := vOperand(vCase("s"), "a")
	alias := s // a second handle on the same set (a copy of the map value)
	for st := 0; st < vCase("steps"); st++ {
		switch vChoice("op", 6) {
		case 0:
			x, y := vOrd("x"), vOrd("y")
			r := s.Add(x, y)
			ref = vRefAdd(ref, x, y)
			vAssert(r.Len() == len(ref), "Add returns the updated set")
			vCover("add")
		case 1:
			t, tref := vOperand(vCase("t"), "b")
			r := s.AddAll(t)
			ref = vRefAdd(ref, tref...)
			vAssert(r.Len() == len(ref), "AddAll returns the updated set")
			// the argument must not be aliased: changing s afterwards leaves t alone
			f := vOrd("fresh")
			s.Add(f)
			ref = vRefAdd(ref, f)
			vCheckSetNoProbe(t, tref, "AddAll argument after mutating the receiver")
			vCover("addall")
		case 2:
			x := vOrd("x")
			s.Remove(x, x)
			ref = vRefDel(ref, x)
			vCover("remove")
		case 3:
			t, tref := vOperand(vCase("t"), "b")
			s.RemoveAll(t)
			ref = vRefDel(ref, tref...)
			vCheckSetNoProbe(t, tref, "RemoveAll argument unchanged")
			vCover("removeall")
		case 4:
			had := len(ref)
			x := s.Pop()
			if had == 0 {
				vAssert(x == 0, "Pop on an empty set returns zero")
			} else {
				vAssert(vRefHas(ref, x), "Pop returns a member that was present")
				ref = vRefDel(ref, x)
				vAssert(len(ref) == had-1, "Pop removes exactly one member")
			}
			vCover("pop")
		case 5:
			s.Clear()
			ref = nil
			vCover("clear")
		}
		vCheckSet(s, ref, "after op")
		if alias != nil {
			vAssert(alias.Len() == len(ref), "a second handle on the same set sees the same contents")
		}
	}
}

func vCheckSetNoProbe(s Set[int], ref []int, what string) {
	vAssert(s.Len() == len(ref), what+": Len")
	for _, r := range ref {
		vAssert(s.Has(r), what+": members")
	}
}

// VH_mapset_Relations: binary relations for every operand combination.
func VH_mapset_Relations() {
	s, sref := vOperand(vCase("s"), "a")
	t, tref := vOperand(vCase("t"), "b")
	inter := false
	var iref []int
	for _, x := range sref {
		if vRefHas(tref, x) {
			inter = true
			iref = append(iref, x)
		}
	}
	sub := true
	for _, x := range sref {
		if !vRefHas(tref, x) {
			sub = false
		}
	}
	sup := true
	for _, x := range tref {
		if !vRefHas(sref, x) {
			sup = false
		}
	}
	vCover("relations")
	vAssert(s.Intersects(t) == inter, "Intersects")
	vAssert(t.Intersects(s) == inter, "Intersects is symmetric")
	vAssert(s.IsSubset(t) == sub, "IsSubset")
	vAssert(s.Equals(t) == (sub && sup), "Equals")
	// HasAll / HasAny with the other operand's members plus a repeat
	args := append(append([]int{}, tref...), tref...)
	vAssert(s.HasAll(args...) == sup, "HasAll (arguments may repeat)")
	vAssert(s.HasAny(args...) == inter, "HasAny")
	vAssert(s.HasAll() == true, "HasAll() with no arguments is true")
	vAssert(s.HasAny() == false, "HasAny() with no arguments is false")
	in := Intersect(s, t)
	vAssert(in != nil, "Intersect returns a non-nil set")
	vCheckSetNoProbe(in, iref, "Intersect")
	vAssert(in.Len() == len(iref), "Intersect has exactly the common members")
	in.Add(vOrd("fresh"))
	vCheckSetNoProbe(s, sref, "Intersect result does not alias its first argument")
	vCheckSetNoProbe(t, tref, "Intersect result does not alias its second argument")
	vAssert(Intersect[int]() != nil && Intersect[int]().Len() == 0, "Intersect() of nothing is empty, non-nil")
}

// VH_mapset_Fresh: constructors and copies return non-nil sets that do not alias their arguments.
func VH_mapset_Fresh() {
	s, sref := vOperand(vCase("s"), "a")
	one := Intersect(s)
	vAssert(one != nil, "Intersect of a single operand is non-nil")
	vCheckSetNoProbe(one, sref, "Intersect of a single operand has its members")
	one.Add(vOrd("fresh6"))
	vCheckSetNoProbe(s, sref, "Intersect of a single operand does not alias it")
	c := s.Clone()
	vAssert(c != nil, "Clone is non-nil (even of nil)")
	vCheckSetNoProbe(c, sref, "Clone has the same members")
	c.Add(vOrd("fresh"))
	vCheckSetNoProbe(s, sref, "Clone does not alias its receiver")
	// AddAll into a nil receiver must copy
	var z Set[int]
	z.AddAll(s)
	vAssert(z != nil, "AddAll into nil yields a non-nil set")
	vCheckSetNoProbe(z, sref, "AddAll into nil copies the members")
	z.Add(vOrd("fresh2"))
	vCheckSetNoProbe(s, sref, "AddAll into nil does not alias its argument")
	var z2 Set[int]
	z2.AddAll(s)
	if s != nil {
		s.Add(vOrd("fresh3"))
		vAssert(z2.Len() == len(sref), "a set built by AddAll into nil is unaffected by later changes to the argument")
		s = New(sref...)
	}
	// Slice / Append: each member exactly once
	sl := s.Slice()
	vAssert(len(sl) == len(sref), "Slice has one entry per member")
	for i := range sl {
		vAssert(vRefHas(sref, sl[i]), "Slice entries are members")
		for j := 0; j < i; j++ {
			vAssert(sl[i] != sl[j], "Slice has no duplicates")
		}
	}
	pre := []int{vOrd("p")}
	ap := s.Append(pre)
	vAssert(len(ap) == 1+len(sref) && ap[0] == pre[0], "Append keeps the prefix and adds one entry per member")
	// Keys / Values / Range / New
	m := map[int]int{}
	for i, k := range sref {
		m[k] = sref[(i+1)%len(sref)]
	}
	ks := Keys(m)
	vs := Values(m)
	vAssert(ks != nil && vs != nil, "Keys/Values are non-nil")
	vCheckSetNoProbe(ks, sref, "Keys")
	vCheckSetNoProbe(vs, sref, "Values")
	vAssert(Keys[int, int](nil) != nil && Values[int, int](nil) != nil, "Keys/Values of a nil map are non-nil")
	vAssert(Keys[int, struct{}](nil) != nil && Keys[int, bool](nil) != nil && Keys(map[int]struct{}{}) != nil, "Keys of nil/empty maps of any value type are non-nil")
	sm := map[int]struct{}{}
	for _, k := range sref {
		sm[k] = struct{}{}
	}
	sk := Keys(sm)
	vCheckSetNoProbe(sk, sref, "Keys of a map[T]struct{}")
	sk.Add(vOrd("fresh5"))
	vAssert(len(sm) == len(sref), "Keys of a map[T]struct{} does not alias it")
	ks.Add(vOrd("fresh4"))
	vAssert(len(m) == len(sref), "Keys does not alias the map")
	r := Range(func(yield func(int) bool) {
		for _, x := range sref {
			if !yield(x) {
				return
			}
		}
	})
	vAssert(r != nil, "Range is non-nil")
	vCheckSetNoProbe(r, sref, "Range")
	n := New(sref...)
	vAssert(n != nil && New[int]() != nil && NewSize[int](3) != nil, "New is non-nil")
	vCheckSetNoProbe(n, sref, "New")
	vCover("fresh")
}

func VT_mapset_script() {
	s := New(1, 2, 3, 2)
	t := New(3, 4)
	var z Set[int]
	vOut("basic", s.Len(), s.Has(2), s.Has(5), s.Intersects(t), s.IsSubset(t), New(3).IsSubset(t), s.Equals(New(3, 2, 1)))
	vOut("nil", z.Len(), z.Has(1), z.IsSubset(s), z.Equals(New[int]()), z.Clone() != nil, z.HasAll(), z.HasAny(1), Intersect(s, t).Len())
	z.Add(7)
	s.RemoveAll(t)
	vOut("after", z.Len(), s.Len(), s.Has(3), t.Len())
}

// VH_mapset_FloatClear: whatever the members are - self-unequal ones (NaN)
// included, which can be added but never found or removed one by one - Clear
// leaves the set empty.
func VH_mapset_FloatClear() {
	var zero float64
	nan := zero / zero
	vals := []float64{nan, 1, nan, 2}
	s := New[float64]()
	for i := 0; i < vCase("n"); i++ {
		s.Add(vals[vChoice("member", len(vals))])
	}
	before := s.Len()
	vAssert(before <= vCase("n"), "Len counts at most one member per Add")
	r := s.Clear()
	vCover("float-clear")
	vAssert(s.Len() == 0 && s.IsEmpty() && r.Len() == 0, "Clear empties the set whatever its members are")
	vAssert(len(s.Slice()) == 0, "Slice of a cleared set is empty")
	s.Add(1)
	vAssert(s.Len() == 1 && s.Has(1), "a cleared set is usable again")
}
