package stree

// C03, white-box part: cursor moves against the node structure of constructed trees.

type vNav struct {
	nodes  []*node[vKT] // in-order
	parent map[*node[vKT]]*node[vKT]
	index  map[*node[vKT]]int
	root   *node[vKT]
}

func vNavOf(root *node[vKT]) *vNav {
	nv := &vNav{parent: map[*node[vKT]]*node[vKT]{}, index: map[*node[vKT]]int{}, root: root}
	vNodes(root, &nv.nodes)
	for i, nd := range nv.nodes {
		nv.index[nd] = i
		if nd.left != nil {
			nv.parent[nd.left] = nd
		}
		if nd.right != nil {
			nv.parent[nd.right] = nd
		}
	}
	return nv
}

// move applies move m to the reference position (nil = invalid).
func (nv *vNav) move(cur *node[vKT], m int) *node[vKT] {
	if cur == nil {
		return nil
	}
	switch m {
	case 0: // Next
		if i := nv.index[cur]; i+1 < len(nv.nodes) {
			return nv.nodes[i+1]
		}
		return nil
	case 1: // Prev
		if i := nv.index[cur]; i > 0 {
			return nv.nodes[i-1]
		}
		return nil
	case 2:
		return cur.left
	case 3:
		return cur.right
	case 4:
		return nv.parent[cur] // nil at the root: Up from the root invalidates
	case 5:
		for cur.left != nil {
			cur = cur.left
		}
		return cur
	default:
		for cur.right != nil {
			cur = cur.right
		}
		return cur
	}
}

// vCheckCursor: c must sit on cur (or be invalid when cur == nil), with a proper root-to-node path.
func (nv *vNav) check(c *Cursor[vKT], cur *node[vKT], what string) {
	vAssert(c.Valid() == (cur != nil), what+": validity matches the reference position")
	if cur == nil {
		vAssert(c.Key() == vKT{}, what+": invalid cursor yields the zero key")
		vAssert(!c.HasNext() && !c.HasPrev() && !c.HasLeft() && !c.HasRight() && !c.HasParent(), what+": invalid cursor has no neighbours")
		return
	}
	k := c.Key()
	vAssert(vAll(k.K == cur.X.K, k.Tag == cur.X.Tag), what+": Key is the key at the reference position")
	// path structure
	vAssert(len(c.path) > 0 && c.path[0] == nv.root, what+": path starts at the root")
	vAssert(c.path[len(c.path)-1] == cur, what+": path ends at the current node")
	for i := 1; i < len(c.path); i++ {
		vAssert(c.path[i] == c.path[i-1].left || c.path[i] == c.path[i-1].right, what+": path follows parent/child links")
	}
	i := nv.index[cur]
	vAssert(c.HasNext() == (i+1 < len(nv.nodes)), what+": HasNext predicts Next")
	vAssert(c.HasPrev() == (i > 0), what+": HasPrev predicts Prev")
	vAssert(c.HasLeft() == (cur.left != nil), what+": HasLeft")
	vAssert(c.HasRight() == (cur.right != nil), what+": HasRight")
	vAssert(c.HasParent() == (nv.parent[cur] != nil), what+": HasParent")
}

// VH_stree_CursorLookup: Cursor(key) for a symbolic key.
func VH_stree_CursorLookup() {
	n := vCase("n")
	root := vShape(n)
	var ref []vKT
	vFill(root, &ref)
	t := vMkTree(root, 1000, n, n)
	if vCase("cmp") == 1 {
		t.compare = vCmpKTWide
	}
	nv := vNavOf(root)
	x := vKT{vOrd("x"), -3}
	c := t.Cursor(x)
	var at *node[vKT]
	for _, nd := range nv.nodes {
		if nd.X.K == x.K {
			at = nd
		}
	}
	vCover("cursor-lookup")
	nv.check(c, at, "Cursor(key)")
	r := t.Root()
	nv.check(r, root, "Root()")
}

// VH_stree_CursorMoves: from every node, sequences of moves against the reference
// position; subtree iteration; clone independence.
func VH_stree_CursorMoves() {
	n := vCase("n")
	root := vShape(n)
	var ref []vKT
	vFill(root, &ref)
	t := vMkTree(root, 1000, n, n)
	nv := vNavOf(root)
	start := nv.nodes[vChoice("start", n)]
	c := t.Cursor(start.X)
	nv.check(c, start, "start")
	// subtree iteration and ordering of what is reachable through Left/Right
	var sub, want []vKT
	vWalk(start, &want)
	vInorderReuse(c, want)
	c.Inorder(func(k vKT) bool { sub = append(sub, k); return true })
	vAssert(vSameSeq(sub, want), "cursor Inorder lists exactly its subtree in ascending order")
	var lk, rk []vKT
	c.Clone().Left().Inorder(func(k vKT) bool { lk = append(lk, k); return true })
	c.Clone().Right().Inorder(func(k vKT) bool { rk = append(rk, k); return true })
	for _, k := range lk {
		vAssert(k.K < start.X.K, "everything reachable through Left is smaller")
	}
	for _, k := range rk {
		vAssert(k.K > start.X.K, "everything reachable through Right is larger")
	}
	// a bookmark clone must not move with the original
	mark := c.Clone()
	cur := start
	for s := 0; s < vCase("moves"); s++ {
		m := vChoice("move", 7)
		got := vMoveCursor(c, m)
		vAssert(got == c, "moves return the receiver")
		cur = nv.move(cur, m)
		nv.check(c, cur, "after move")
		nv.check(mark, start, "bookmark clone after moving the original")
	}
	vCover("cursor-moves")
	// and the original must not move with the clone
	if cur != nil {
		m := vChoice("clone-move", 7)
		k2 := c.Clone()
		vMoveCursor(k2, m)
		nv.check(k2, nv.move(cur, m), "clone after its own move")
		nv.check(c, cur, "original after moving its clone")
	}
}

// VH_stree_CursorDeep: a spine deep enough that cursor paths have spare capacity:
// clones taken after moving up must still be independent of the original.
func VH_stree_CursorDeep() {
	n := vCase("n")
	root := vSpine(n, vCase("kind"))
	var ref []vKT
	vFill(root, &ref)
	t := vMkTree(root, 1000, len(ref), len(ref))
	nv := vNavOf(root)
	// the deepest node
	deep := root
	for deep.left != nil || deep.right != nil {
		if vHeight(deep.left) >= vHeight(deep.right) {
			deep = deep.left
		} else {
			deep = deep.right
		}
	}
	c := t.Cursor(deep.X)
	cur := deep
	nv.check(c, cur, "deepest node")
	ups := vChoice("ups", n-1)
	for i := 0; i < ups; i++ {
		c.Up()
		cur = nv.move(cur, 4)
	}
	nv.check(c, cur, "after moving up")
	k := c.Clone()
	// move both in (possibly) different directions, twice, re-checking both each time
	kc := cur
	for s := 0; s < vCase("rounds"); s++ {
		m1, m2 := vChoice("orig-move", 7), vChoice("clone-move", 7)
		vMoveCursor(c, m1)
		cur = nv.move(cur, m1)
		vMoveCursor(k, m2)
		kc = nv.move(kc, m2)
		nv.check(c, cur, "original after both moved")
		nv.check(k, kc, "clone after both moved")
	}
	vCover("cursor-deep")
}
