package stree

// White-box helpers for the stree harnesses: trees of every shape built directly
// from nodes, and the package's own Tree struct around them. This file is listed
// under whitebox_files: when a refactoring of the unexported representation makes
// it stop compiling it is dropped and the exported-API harnesses decide.

// vShape builds a tree with n nodes; the shape is chosen by vChoice (every
// binary tree shape with n nodes is reachable). Keys are filled in later.
func vShape(n int) *node[vKT] {
	if n == 0 {
		return nil
	}
	ls := vChoice("left-size", n)
	nd := &node[vKT]{}
	nd.left = vShape(ls)
	nd.right = vShape(n - 1 - ls)
	return nd
}

// vFill assigns strictly increasing symbolic keys in in-order; returns the key list.
func vFill(nd *node[vKT], keys *[]vKT) {
	if nd == nil {
		return
	}
	vFill(nd.left, keys)
	k := vKT{vOrd("k"), len(*keys)}
	if len(*keys) > 0 {
		vAssume((*keys)[len(*keys)-1].K < k.K)
	}
	nd.X = k
	*keys = append(*keys, k)
	vFill(nd.right, keys)
}

func vHeight(nd *node[vKT]) int { // number of nodes on the longest root-to-leaf path
	if nd == nil {
		return 0
	}
	l, r := vHeight(nd.left), vHeight(nd.right)
	if l > r {
		return l + 1
	}
	return r + 1
}

func vCount(nd *node[vKT]) int {
	if nd == nil {
		return 0
	}
	return 1 + vCount(nd.left) + vCount(nd.right)
}

func vWalk(nd *node[vKT], out *[]vKT) {
	if nd == nil {
		return
	}
	vWalk(nd.left, out)
	*out = append(*out, nd.X)
	vWalk(nd.right, out)
}

func vNodes(nd *node[vKT], out *[]*node[vKT]) {
	if nd == nil {
		return
	}
	vNodes(nd.left, out)
	*out = append(*out, nd)
	vNodes(nd.right, out)
}

// vMkTree builds a Tree around a root as the package itself would hold it.
func vMkTree(root *node[vKT], beta, size, max int) *Tree[vKT] {
	return &Tree[vKT]{root: root, β: beta, compare: vCmpKT, limit: limitFunc(beta), size: size, max: max}
}

// vMaxFor picks the tree's high-water mark: any value >= size that the
// removal rule would not already have rebuilt away: size >= (max*β+1000)/2000.
func vMaxFor(n, beta int) int {
	m := n + vChoice("max-extra", 4)
	if n < (m*beta+maxBalance)/fracLimit {
		vAssume(false)
	}
	return m
}

func init() {
	vNodeCountHook = func(t *Tree[vKT]) int { return vCount(t.root) }
}
