package stree

// Shared helpers for the stree harnesses (C01-C03): symbolic trees of every shape.

type vKT struct {
	K   int // ordering key (symbolic, order-only)
	Tag int // identity of the representative (concrete)
}

func vCmpKT(a, b vKT) int {
	if a.K < b.K {
		return -1
	}
	if a.K > b.K {
		return 1
	}
	return 0
}

// vCmpKTWide orders like vCmpKT but returns magnitudes other than 1, as the
// comparison contract (<0, 0, >0) permits.
func vCmpKTWide(a, b vKT) int {
	if a.K < b.K {
		return -5
	}
	if a.K > b.K {
		return 7
	}
	return 0
}

// vShape builds a tree with n nodes; the shape is chosen by vChoice (every
// binary tree shape with n nodes is reachable). Keys are filled in later.
func vShape(n int) *node[vKT] {
	if n == 0 {
		return nil
	}
	ls := vChoice("left-size", n)
	nd := &node[vKT]{}
	nd.left = vShape(ls)
	nd.right = vShape(n - 1 - ls)
	return nd
}

// vFill assigns strictly increasing symbolic keys in in-order; returns the key list.
func vFill(nd *node[vKT], keys *[]vKT) {
	if nd == nil {
		return
	}
	vFill(nd.left, keys)
	k := vKT{vOrd("k"), len(*keys)}
	if len(*keys) > 0 {
		vAssume((*keys)[len(*keys)-1].K < k.K)
	}
	nd.X = k
	*keys = append(*keys, k)
	vFill(nd.right, keys)
}

func vHeight(nd *node[vKT]) int { // number of nodes on the longest root-to-leaf path
	if nd == nil {
		return 0
	}
	l, r := vHeight(nd.left), vHeight(nd.right)
	if l > r {
		return l + 1
	}
	return r + 1
}

func vCount(nd *node[vKT]) int {
	if nd == nil {
		return 0
	}
	return 1 + vCount(nd.left) + vCount(nd.right)
}

func vWalk(nd *node[vKT], out *[]vKT) {
	if nd == nil {
		return
	}
	vWalk(nd.left, out)
	*out = append(*out, nd.X)
	vWalk(nd.right, out)
}

func vNodes(nd *node[vKT], out *[]*node[vKT]) {
	if nd == nil {
		return
	}
	vNodes(nd.left, out)
	*out = append(*out, nd)
	vNodes(nd.right, out)
}

// vMkTree builds a Tree around a root as the package itself would hold it.
func vMkTree(root *node[vKT], beta, size, max int) *Tree[vKT] {
	return &Tree[vKT]{root: root, β: beta, compare: vCmpKT, limit: limitFunc(beta), size: size, max: max}
}

var vBetas = []int{0, 1, 250, 500, 750, 999, 1000}

func vBeta() int { return vBetas[vCase("beta")] }

// vMaxFor picks the tree's high-water mark: any value >= size that the
// removal rule would not already have rebuilt away: size >= (max*β+1000)/2000.
func vMaxFor(n, beta int) int {
	m := n + vChoice("max-extra", 4)
	if n < (m*beta+maxBalance)/fracLimit {
		vAssume(false)
	}
	return m
}

func vSameSeq(got, want []vKT) bool {
	if len(got) != len(want) {
		return false
	}
	ok := true
	for i := range got {
		ok = vAll(ok, got[i].K == want[i].K, got[i].Tag == want[i].Tag)
	}
	return ok
}

func vInorderOf(t *Tree[vKT]) []vKT {
	var out []vKT
	t.Inorder(func(k vKT) bool { out = append(out, k); return true })
	return out
}

// vCheckTree compares every read-only observation of t with the reference sequence.
func vCheckTree(t *Tree[vKT], ref []vKT, what string) {
	vAssert(t.Len() == len(ref), what+": Len")
	vAssert(t.IsEmpty() == (len(ref) == 0), what+": IsEmpty")
	vAssert(vCount(t.root) == len(ref), what+": node count equals Len")
	got := vInorderOf(t)
	vAssert(vSameSeq(got, ref), what+": Inorder equals the reference (keys and representatives)")
	for i := 1; i < len(got); i++ {
		vAssert(got[i-1].K < got[i].K, what+": Inorder strictly ascending")
	}
	if len(ref) > 0 {
		mn, mx := t.Min(), t.Max()
		vAssert(vAll(mn.K == ref[0].K, mn.Tag == ref[0].Tag), what+": Min")
		vAssert(vAll(mx.K == ref[len(ref)-1].K, mx.Tag == ref[len(ref)-1].Tag), what+": Max")
	} else {
		vAssert(t.Min() == vKT{}, what+": Min of empty tree is zero")
		vAssert(t.Max() == vKT{}, what+": Max of empty tree is zero")
	}
}

// vProbe checks Get / InorderAfter / stoppable Inorder for a fresh symbolic key.
func vProbe(t *Tree[vKT], ref []vKT, what string) {
	y := vKT{vOrd("probe"), -7}
	got, ok := t.Get(y)
	idx := -1
	for i, r := range ref {
		if r.K == y.K {
			idx = i
		}
	}
	vAssert(ok == (idx >= 0), what+": Get reports membership")
	if idx >= 0 {
		vAssert(vAll(got.K == ref[idx].K, got.Tag == ref[idx].Tag), what+": Get returns the stored representative")
	} else {
		vAssert(got == vKT{}, what+": Get of an absent key returns zero")
	}
	// InorderAfter(y): all reference keys >= y in order
	var after []vKT
	for k := range t.InorderAfter(y) {
		after = append(after, k)
	}
	var want []vKT
	for _, r := range ref {
		if r.K >= y.K {
			want = append(want, r)
		}
	}
	vAssert(vSameSeq(after, want), what+": InorderAfter(k) yields exactly the keys >= k in order")
	// stoppable iteration
	if len(ref) > 0 {
		stop := 0
		if len(ref) > 1 && vChoice("stop-late", 2) == 1 {
			stop = len(ref) - 2
		}
		cnt := 0
		t.Inorder(func(k vKT) bool { cnt++; return cnt <= stop })
		vAssert(cnt == stop+1, what+": Inorder stops when the callback returns false")
		if len(want) > 1 {
			cnt = 0
			for range t.InorderAfter(y) {
				cnt++
				if cnt == len(want)-1 {
					break
				}
			}
			vAssert(cnt == len(want)-1, what+": InorderAfter stops when the loop breaks")
		}
	}
}

// vRefInsertPos returns the index at which x belongs and whether an equal key is present.
func vRefFind(ref []vKT, x vKT) (pos int, present bool) {
	for i, r := range ref {
		if x.K == r.K {
			return i, true
		}
		if x.K < r.K {
			return i, false
		}
	}
	return len(ref), false
}

func vInsertAt(ref []vKT, pos int, x vKT) []vKT {
	out := make([]vKT, 0, len(ref)+1)
	out = append(out, ref[:pos]...)
	out = append(out, x)
	return append(out, ref[pos:]...)
}

func vRemoveAt(ref []vKT, pos int) []vKT {
	out := make([]vKT, 0, len(ref))
	out = append(out, ref[:pos]...)
	return append(out, ref[pos+1:]...)
}

// vApplyOp performs one mutating operation on t and the reference; op: 0 Add, 1 Replace, 2 Remove, 3 Clear.
func vApplyOp(t *Tree[vKT], ref []vKT, op int, tag int, what string) []vKT {
	switch op {
	case 0, 1:
		x := vKT{vOrd("x"), tag}
		pos, present := vRefFind(ref, x)
		var ok bool
		if op == 0 {
			ok = t.Add(x)
		} else {
			ok = t.Replace(x)
		}
		vAssert(ok == !present, what+": Add/Replace report whether the key was new")
		if !present {
			ref = vInsertAt(ref, pos, x)
			vCover("insert-new")
		} else if op == 1 {
			ref = append([]vKT{}, ref...)
			ref[pos] = x
			vCover("replace-existing")
		} else {
			vCover("add-existing")
		}
	case 2:
		x := vKT{vOrd("x"), tag}
		pos, present := vRefFind(ref, x)
		ok := t.Remove(x)
		vAssert(ok == present, what+": Remove reports whether the key was present")
		if present {
			ref = vRemoveAt(ref, pos)
			vCover("remove-present")
		} else {
			vCover("remove-absent")
		}
	case 3:
		t.Clear()
		ref = nil
		vCover("clear")
	}
	return ref
}
