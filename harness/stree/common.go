package stree

// Shared helpers for the stree harnesses (C01-C03) that use the exported API only.

type vKT struct {
	K   int // ordering key (symbolic, order-only)
	Tag int // identity of the representative (concrete)
}

// vNodeCountHook counts the nodes actually linked below the root; it is
// installed by the white-box file (nil when that file had to be dropped).
var vNodeCountHook func(t *Tree[vKT]) int

func vCmpKT(a, b vKT) int {
	if a.K < b.K {
		return -1
	}
	if a.K > b.K {
		return 1
	}
	return 0
}

// vCmpKTWide orders like vCmpKT but returns magnitudes other than 1, as the
// comparison contract (<0, 0, >0) permits.
func vCmpKTWide(a, b vKT) int {
	if a.K < b.K {
		return -5
	}
	if a.K > b.K {
		return 7
	}
	return 0
}

var vBetas = []int{0, 1, 250, 500, 750, 999, 1000}

func vBeta() int { return vBetas[vCase("beta")] }

func vSameSeq(got, want []vKT) bool {
	if len(got) != len(want) {
		return false
	}
	ok := true
	for i := range got {
		ok = vAll(ok, got[i].K == want[i].K, got[i].Tag == want[i].Tag)
	}
	return ok
}

func vInorderOf(t *Tree[vKT]) []vKT {
	var out []vKT
	t.Inorder(func(k vKT) bool { out = append(out, k); return true })
	return out
}

// vCheckTree compares every read-only observation of t with the reference sequence.
func vCheckTree(t *Tree[vKT], ref []vKT, what string) {
	vAssert(t.Len() == len(ref), what+": Len")
	vAssert(t.IsEmpty() == (len(ref) == 0), what+": IsEmpty")
	if vNodeCountHook != nil {
		vAssert(vNodeCountHook(t) == len(ref), what+": node count equals Len")
	}
	got := vInorderOf(t)
	vAssert(vSameSeq(got, ref), what+": Inorder equals the reference (keys and representatives)")
	for i := 1; i < len(got); i++ {
		vAssert(got[i-1].K < got[i].K, what+": Inorder strictly ascending")
	}
	if len(ref) > 0 {
		mn, mx := t.Min(), t.Max()
		vAssert(vAll(mn.K == ref[0].K, mn.Tag == ref[0].Tag), what+": Min")
		vAssert(vAll(mx.K == ref[len(ref)-1].K, mx.Tag == ref[len(ref)-1].Tag), what+": Max")
	} else {
		vAssert(t.Min() == vKT{}, what+": Min of empty tree is zero")
		vAssert(t.Max() == vKT{}, what+": Max of empty tree is zero")
	}
}

// vProbe checks Get / InorderAfter / stoppable Inorder for a fresh symbolic key.
func vProbe(t *Tree[vKT], ref []vKT, what string) {
	y := vKT{vOrd("probe"), -7}
	got, ok := t.Get(y)
	idx := -1
	for i, r := range ref {
		if r.K == y.K {
			idx = i
		}
	}
	vAssert(ok == (idx >= 0), what+": Get reports membership")
	if idx >= 0 {
		vAssert(vAll(got.K == ref[idx].K, got.Tag == ref[idx].Tag), what+": Get returns the stored representative")
	} else {
		vAssert(got == vKT{}, what+": Get of an absent key returns zero")
	}
	// InorderAfter(y): all reference keys >= y in order
	var after []vKT
	for k := range t.InorderAfter(y) {
		after = append(after, k)
	}
	var want []vKT
	for _, r := range ref {
		if r.K >= y.K {
			want = append(want, r)
		}
	}
	vAssert(vSameSeq(after, want), what+": InorderAfter(k) yields exactly the keys >= k in order")
	// stoppable iteration
	if len(ref) > 0 {
		stop := 0
		if len(ref) > 1 && vChoice("stop-late", 2) == 1 {
			stop = len(ref) - 2
		}
		cnt := 0
		t.Inorder(func(k vKT) bool { cnt++; return cnt <= stop })
		vAssert(cnt == stop+1, what+": Inorder stops when the callback returns false")
		if len(want) > 1 {
			cnt = 0
			for range t.InorderAfter(y) {
				cnt++
				if cnt == len(want)-1 {
					break
				}
			}
			vAssert(cnt == len(want)-1, what+": InorderAfter stops when the loop breaks")
		}
	}
}

// vRefInsertPos returns the index at which x belongs and whether an equal key is present.
func vRefFind(ref []vKT, x vKT) (pos int, present bool) {
	for i, r := range ref {
		if x.K == r.K {
			return i, true
		}
		if x.K < r.K {
			return i, false
		}
	}
	return len(ref), false
}

func vInsertAt(ref []vKT, pos int, x vKT) []vKT {
	out := make([]vKT, 0, len(ref)+1)
	out = append(out, ref[:pos]...)
	out = append(out, x)
	return append(out, ref[pos:]...)
}

func vRemoveAt(ref []vKT, pos int) []vKT {
	out := make([]vKT, 0, len(ref))
	out = append(out, ref[:pos]...)
	return append(out, ref[pos+1:]...)
}

// vApplyOp performs one mutating operation on t and the reference; op: 0 Add, 1 Replace, 2 Remove, 3 Clear.
func vApplyOp(t *Tree[vKT], ref []vKT, op int, tag int, what string) []vKT {
	switch op {
	case 0, 1:
		x := vKT{vOrd("x"), tag}
		pos, present := vRefFind(ref, x)
		var ok bool
		if op == 0 {
			ok = t.Add(x)
		} else {
			ok = t.Replace(x)
		}
		vAssert(ok == !present, what+": Add/Replace report whether the key was new")
		if !present {
			ref = vInsertAt(ref, pos, x)
			vCover("insert-new")
		} else if op == 1 {
			ref = append([]vKT{}, ref...)
			ref[pos] = x
			vCover("replace-existing")
		} else {
			vCover("add-existing")
		}
	case 2:
		x := vKT{vOrd("x"), tag}
		pos, present := vRefFind(ref, x)
		ok := t.Remove(x)
		vAssert(ok == present, what+": Remove reports whether the key was present")
		if present {
			ref = vRemoveAt(ref, pos)
			vCover("remove-present")
		} else {
			vCover("remove-absent")
		}
	case 3:
		t.Clear()
		ref = nil
		vCover("clear")
	}
	return ref
}
