package stree

// C01, white-box part: one (or two) operations from an arbitrary constructed state.

// VH_stree_Step: one operation from an arbitrary tree shape with symbolic keys.
func VH_stree_Step() {
	n := vCase("n")
	beta := vBeta()
	root := vShape(n)
	var ref []vKT
	vFill(root, &ref)
	op := vCase("op")
	max := n
	if op == 2 {
		max = vMaxFor(n, beta) // the high-water mark only matters to Remove
	}
	t := vMkTree(root, beta, n, max)
	if vCase("cmp") == 1 {
		t.compare = vCmpKTWide
	}
	if op == 2 {
		// note two-child removals with a deep successor for the cover report
		var nodes []*node[vKT]
		vNodes(root, &nodes)
		for _, nd := range nodes {
			if nd.left != nil && nd.right != nil && nd.right.left != nil {
				vCover("has-two-child-node-with-deep-successor")
			}
		}
	}
	ref = vApplyOp(t, ref, op, 100, "step")
	vCheckTree(t, ref, "after step")
	if n <= vCase("two") && (op == 2 || n <= 2) {
		// a second operation from the state the first one left (stale internal state
		// shows here): after a removal for all sizes, after anything for tiny trees
		ref = vApplyOp(t, ref, vChoice("op2", 3), 101, "second step")
		vCheckTree(t, ref, "after second step")
		vCover("two-steps")
	}
	vInvariant(t.max >= t.size, "max >= size")
	vInvariant(t.size >= (t.max*t.β+maxBalance)/fracLimit, "size not below the rebuild threshold")
}

// VH_stree_Read: read-only operations on an arbitrary tree shape (Get,
// InorderAfter, stoppable iteration) with a symbolic probe key.
func VH_stree_Read() {
	n := vCase("n")
	root := vShape(n)
	var ref []vKT
	vFill(root, &ref)
	t := vMkTree(root, 500, n, n)
	if vCase("cmp") == 1 {
		t.compare = vCmpKTWide
	}
	vCover("read")
	vCheckTree(t, ref, "read")
	vProbe(t, ref, "read")
}

// VH_stree_Nested: two traversals interleaved on the same tree (or a tree and its clone).
func VH_stree_Nested() {
	n := vCase("n")
	root := vShape(n)
	var ref []vKT
	vFill(root, &ref)
	t := vMkTree(root, 500, n, n)
	// two traversals interleaved on the same tree (and on a clone) do not disturb each other
	if n >= 2 {
		y1, y2 := ref[vChoice("outer-from", n)], ref[vChoice("inner-from", n)]
		other := t
		if vChoice("inner-on-clone", 2) == 1 {
			other = t.Clone()
		}
		var outer []vKT
		first := true
		for k := range t.InorderAfter(y1) {
			outer = append(outer, k)
			if first {
				first = false
				var inner []vKT
				for j := range other.InorderAfter(y2) {
					inner = append(inner, j)
				}
				vAssert(vSameSeq(inner, ref[y2.Tag:]), "a traversal started inside another one is complete")
			}
		}
		vAssert(vSameSeq(outer, ref[y1.Tag:]), "a traversal is not disturbed by another one started while it is suspended")
		vCover("nested-traversals")
	}
}

// VH_stree_Clone: a clone shares no node with its original and neither side sees the other's changes.
func VH_stree_Clone() {
	n := vCase("n")
	beta := vBeta()
	root := vShape(n)
	var ref []vKT
	vFill(root, &ref)
	t := vMkTree(root, beta, n, n)
	c := t.Clone()
	vCover("cloned")
	vCheckTree(c, ref, "clone")
	var a, b []*node[vKT]
	vNodes(t.root, &a)
	vNodes(c.root, &b)
	for _, x := range a {
		for _, y := range b {
			vAssert(x != y, "Clone shares no node with the original")
		}
	}
	op := vChoice("op", 3)
	if vCase("side") == 0 {
		tref := vApplyOp(t, ref, op, 100, "op on original")
		vCheckTree(t, tref, "original after its own change")
		vCheckTree(c, ref, "clone after a change to the original")
	} else {
		cref := vApplyOp(c, ref, op, 100, "op on clone")
		vCheckTree(c, cref, "clone after its own change")
		vCheckTree(t, ref, "original after a change to the clone")
	}
}

// vSpine builds a degenerate tree with a spine of n nodes: kind 0 left spine, 1 right
// spine, 2 zig-zag, 3 right spine whose every node also has a left leaf (a "comb").
func vSpine(n, kind int) *node[vKT] {
	if n == 0 {
		return nil
	}
	nd := &node[vKT]{}
	child := vSpine(n-1, kind)
	switch {
	case kind == 3:
		nd.right = child
		if child != nil {
			nd.left = &node[vKT]{}
		}
	case kind == 0, kind == 2 && n%2 == 0:
		nd.left = child
	default:
		nd.right = child
	}
	return nd
}

// VH_stree_Deep: degenerate (spine) trees far deeper than any balanced small
// tree; contents, iteration, clone and one removal/insertion at the far end.
func VH_stree_Deep() {
	n := vCase("n")
	root := vSpine(n, vCase("kind"))
	var ref []vKT
	vFill(root, &ref)
	t := vMkTree(root, 1000, n, n)
	vCover("deep")
	vCheckTree(t, ref, "deep tree")
	c := t.Clone()
	vCheckTree(c, ref, "clone of a deep tree")
	cnt := 0
	t.Inorder(func(vKT) bool { cnt++; return cnt < n-1 })
	vAssert(cnt == n-1, "stoppable iteration on a deep tree")
	var after []vKT
	for k := range t.InorderAfter(ref[n/2]) {
		after = append(after, k)
	}
	vAssert(vSameSeq(after, ref[n/2:]), "InorderAfter on a deep tree")
	got, ok := t.Get(ref[n-1])
	vAssert(ok && got.Tag == ref[n-1].Tag, "Get of the deepest key")
	vAssert(t.Remove(ref[0]), "Remove of the smallest key")
	vCheckTree(t, ref[1:], "deep tree after Remove")
}
