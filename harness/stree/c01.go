package stree

// C01: stree.Tree is a sorted set.

// VH_stree_History: exported API only: New(β, cmp, keys...) with arbitrary
// (unsorted, duplicated) keys, then a short history of operations.
func VH_stree_History() {
	beta := vBeta()
	m := vCase("init")
	keys := make([]vKT, m)
	for i := range keys {
		keys[i] = vKT{vOrd("init"), i}
	}
	t := New(beta, vCmpKT, keys...)
	// reference: sorted distinct keys; any representative of an equivalence class is accepted
	got := vInorderOf(t)
	var ref []vKT
	for _, k := range keys {
		pos, present := vRefFind(ref, k)
		if !present {
			ref = vInsertAt(ref, pos, k)
		}
	}
	vAssert(len(got) == len(ref), "New: one entry per distinct key")
	for i := range got {
		if i < len(ref) {
			vAssert(got[i].K == ref[i].K, "New: sorted distinct keys")
			okTag := false
			for _, k := range keys {
				if k.K == got[i].K && k.Tag == got[i].Tag {
					okTag = true
				}
			}
			vAssert(okTag, "New: stored representative is one of the equivalent keys given")
			ref[i] = got[i]
		}
	}
	vCover("new-bulk")
	vCheckTree(t, ref, "after New")
	for s := 0; s < vCase("steps"); s++ {
		ref = vApplyOp(t, ref, vChoice("op", 4), 100+s, "history")
		vCheckTree(t, ref, "history")
	}
}

func vIntCmp(a, b int) int {
	if a < b {
		return -1
	}
	if a > b {
		return 1
	}
	return 0
}

func VT_stree_words() {
	for _, beta := range []int{0, 250, 500, 1000} {
		t := New[int](beta, vIntCmp)
		var rs []bool
		for _, k := range []int{50, 20, 80, 10, 30, 60, 90, 70, 20, 55, 1, 2, 3, 4, 5, 6, 7, 8, 9} {
			rs = append(rs, t.Add(k))
		}
		var in []int
		t.Inorder(func(k int) bool { in = append(in, k); return true })
		vOut("adds", beta, rs, in, t.Len())
		rs = nil
		for _, k := range []int{50, 51, 1, 90, 5, 6, 7, 8, 9, 10, 20, 30} {
			rs = append(rs, t.Remove(k))
		}
		in = nil
		t.Inorder(func(k int) bool { in = append(in, k); return true })
		var af []int
		for k := range t.InorderAfter(4) {
			af = append(af, k)
		}
		vOut("removes", beta, rs, in, af, t.Min(), t.Max())
		b := New(beta, vIntCmp, 9, 3, 7, 3, 1, 9, 5)
		in = nil
		b.Inorder(func(k int) bool { in = append(in, k); return true })
		vOut("bulk", beta, in, b.Len())
	}
}
