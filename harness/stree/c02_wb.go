package stree

// C02, white-box part: inductive height steps from constructed states and the
// limit-function lemma.

func vDepth(nd *node[vKT]) int { // deepest key's distance from the root; -1 for the empty tree
	return vHeight(nd) - 1
}

// VH_stree_HeightStep: inductive step of the height invariant for concrete β.
func VH_stree_HeightStep() {
	n := vCase("n")
	beta := vBeta()
	root := vShape(n)
	var ref []vKT
	vFill(root, &ref)
	// ghost peak P >= n; the tree's own high-water mark max is somewhere in [n, P]
	P := n + vChoice("peak-extra", 3)*((n+2)/2)
	if n == 0 {
		P = 0
	}
	vAssume(vDepthBoundOK(beta, P, vDepth(root)))
	// The tree's own high-water mark is independent of P: it survives the tree
	// being drained to empty (which resets P) whenever the removal rule never
	// fires, so it can be far above both n and P.
	max := n
	switch vChoice("max", 3) {
	case 1:
		max = P
	case 2:
		max = 1000
	}
	if n < (max*beta+maxBalance)/fracLimit {
		vAssume(false)
	}
	calls := 0
	t := vMkTree(root, beta, n, max)
	t.compare = func(a, b vKT) int { calls++; return vCmpKT(a, b) }
	ref = vApplyOp(t, ref, vCase("op"), 100, "height step")
	if len(ref) > P {
		P = len(ref)
	}
	if len(ref) == 0 {
		P = 0
	}
	vCover("height-step")
	vAssert(vDepthBoundOK(beta, P, vDepth(t.root)), "depth bound holds after the operation")
	// a lookup of any present key needs at most bound+1 comparisons
	for _, y := range ref {
		calls = 0
		_, ok := t.Get(y)
		vAssert(ok, "present key found")
		vAssert(calls <= vDepth(t.root)+1, "lookup comparisons bounded by depth+1")
		vAssert(vDepthBoundOK(beta, P, calls-1), "lookup needs at most bound+1 comparisons")
	}
	vInvariant(t.size >= (t.max*t.β+maxBalance)/fracLimit, "size not below the rebuild threshold")
	vInvariant(t.max >= t.size, "size <= max")
}

// VH_stree_HeightStepAbs: the inductive height step with an ABSTRACT depth
// limit. The tree's limit function is replaced by a table L[0..n+2] of solver
// variables constrained only by the two facts about the real limitFunc(β) that
// VH_stree_LimitTable establishes for every β (monotone in n; at least
// floor(log2 n), which is the height a rebuild produces). The step must then
// re-establish depth <= L[P]+1, whatever the table is: this is the induction
// of DESIGN §5 C02 for all balance factors at once. (The removal rule still
// uses a concrete β, which in this harness is independent of L: more
// behaviours than the real code has, never fewer.)
func VH_stree_HeightStepAbs() {
	n := vCase("n")
	beta := vBeta()
	root := vShape(n)
	var ref []vKT
	vFill(root, &ref)
	N := n + 2
	L := make([]int, N+1)
	for k := 1; k <= N; k++ {
		L[k] = vRange("L", vFloorLog2(k), k+1)
		vAssume(L[k] >= L[k-1])
	}
	P := n + vChoice("peak-extra", 3)
	if n == 0 {
		P = 0
	}
	if P > N {
		vAssume(false)
	}
	if n > 0 {
		vAssume(vDepth(root) <= L[P]+1)
	}
	max := n
	switch vChoice("max", 3) {
	case 1:
		max = P
	case 2:
		max = 1000
	}
	if n < (max*beta+maxBalance)/fracLimit {
		vAssume(false)
	}
	t := vMkTree(root, beta, n, max)
	t.limit = func(k int) int {
		vInvariant(k >= 0 && k <= N, "limit is asked only for sizes up to size+1")
		return L[k]
	}
	ref = vApplyOp(t, ref, vCase("op"), 100, "abstract height step")
	if len(ref) > P {
		P = len(ref)
	}
	if len(ref) == 0 {
		P = 0
	}
	vCover("abs-height-step")
	if P == 0 {
		vAssert(t.root == nil, "an emptied tree has no nodes")
		return
	}
	vAssert(vDepth(t.root) <= L[P]+1, "depth <= limit(P)+1 is re-established for every admissible limit table")
}

// VH_stree_LimitTable: the depth limit used by insertion is never above the
// property's logarithm and never below floor(log2 n) (which the rebuild
// argument needs), for every balance factor in the job's range. This is the
// lemma the inductive height step rests on; the real limitFunc is executed.
func VH_stree_LimitTable() {
	lo, hi := vCase("lo"), vCase("hi")
	ns := []int{1, 2, 3, 4, 5, 6, 7, 8, 9, 10, 12, 15, 16, 17, 20, 31, 32, 33, 50, 63, 64, 65, 100, 127, 128, 129, 255, 256, 257, 500, 1000, 1023, 1024, 1025, 4095, 4096, 4097, 10000, 65536, 1000000}
	for beta := lo; beta <= hi; beta++ {
		f := limitFunc(beta)
		prev := 0
		for _, n := range ns {
			l := f(n)
			vAssert(l >= vFloorLog2(n), "limit(n) is at least floor(log2 n)")
			vAssert(l >= prev, "limit is monotone in n")
			prev = l
			if beta < 1000 {
				// l <= log_{2000/(1000+beta)} n  <=>  2000^l <= n*(1000+beta)^l
				vAssert(vDepthBoundOK(beta, n, l+1), "limit(n) does not exceed the logarithm of the property")
			}
		}
	}
	vCover("limit-table")
}

func VT_stree_limits() {
	for _, beta := range []int{0, 1, 250, 500, 750, 998, 999, 1000} {
		f := limitFunc(beta)
		var ls []int
		for _, n := range []int{1, 2, 3, 4, 5, 7, 8, 9, 15, 16, 17, 100, 1000, 4096} {
			ls = append(ls, f(n))
		}
		vOut("limit", beta, ls)
	}
	// a sorted insertion run and its depth profile
	for _, beta := range []int{0, 500, 999} {
		t := New[vKT](beta, vCmpKT)
		var ds []int
		for i := 0; i < 40; i++ {
			t.Add(vKT{i, i})
			ds = append(ds, vDepth(t.root))
		}
		for i := 0; i < 30; i++ {
			t.Remove(vKT{i, i})
			ds = append(ds, vDepth(t.root))
		}
		vOut("depths", beta, ds)
	}
}
