package stree

// C03: Cursor navigation vs the tree shape.

func vMoveCursor(c *Cursor[vKT], m int) *Cursor[vKT] {
	switch m {
	case 0:
		return c.Next()
	case 1:
		return c.Prev()
	case 2:
		return c.Left()
	case 3:
		return c.Right()
	case 4:
		return c.Up()
	case 5:
		return c.Min()
	default:
		return c.Max()
	}
}

// VH_stree_CursorAfterHistory: a tree grown and then shrunk through the exported API
// (ascending symbolic keys, so no forks), far enough to trigger the removal-side
// rebuild; then a complete cursor walk in both directions and per-node checks.
func VH_stree_CursorAfterHistory() {
	n, drop := vCase("n"), vCase("drop")
	t := New[vKT](vBeta(), vCmpKT)
	var ref []vKT
	for i := 0; i < n; i++ {
		k := vKT{vOrd("k"), i}
		if i > 0 {
			vAssume(ref[i-1].K < k.K)
		}
		ref = append(ref, k)
		vAssert(t.Add(k), "Add of a new key")
	}
	for i := 0; i < drop; i++ {
		j := 0
		if vCase("from") == 1 {
			j = len(ref) - 1
		}
		vAssert(t.Remove(ref[j]), "Remove of a present key")
		ref = append(append([]vKT{}, ref[:j]...), ref[j+1:]...)
	}
	vCover("cursor-after-history")
	// forward walk
	c := t.Root().Min()
	for i := 0; i < len(ref); i++ {
		vAssert(c.Valid() && c.Key().Tag == ref[i].Tag, "forward walk visits the keys in ascending order")
		vAssert(c.HasNext() == (i+1 < len(ref)), "HasNext predicts Next during the walk")
		vAssert(c.HasPrev() == (i > 0), "HasPrev predicts Prev during the walk")
		sub := 0
		c.Inorder(func(k vKT) bool { sub++; return sub <= len(ref) })
		vAssert(sub >= 1 && sub <= len(ref), "cursor Inorder terminates within the subtree")
		c.Next()
	}
	vAssert(!c.Valid(), "walking past the maximum invalidates the cursor")
	// backward walk
	c = t.Root().Max()
	for i := len(ref) - 1; i >= 0; i-- {
		vAssert(c.Valid() && c.Key().Tag == ref[i].Tag, "backward walk visits the keys in descending order")
		c.Prev()
	}
	vAssert(!c.Valid(), "walking past the minimum invalidates the cursor")
	for _, k := range ref {
		vAssert(t.Cursor(k).Key().Tag == k.Tag, "Cursor(key) finds every remaining key")
	}
}

// vAPINode is a node of the tree shape as discovered through the cursor API.
type vAPINode struct {
	key         vKT
	left, right *vAPINode
	parent      *vAPINode
	idx         int // in-order position
}

// vDiscover walks the subtree under c with Left/Right on clones.
func vDiscover(c *Cursor[vKT], parent *vAPINode, budget *int) *vAPINode {
	if !c.Valid() {
		return nil
	}
	*budget--
	vAssert(*budget >= 0, "the shape reachable through Left/Right is finite (no cycles)")
	if *budget < 0 {
		return nil
	}
	nd := &vAPINode{key: c.Key(), parent: parent}
	vAssert(c.HasLeft() == c.Clone().Left().Valid(), "HasLeft predicts Left")
	vAssert(c.HasRight() == c.Clone().Right().Valid(), "HasRight predicts Right")
	vAssert(c.HasParent() == (parent != nil), "HasParent is false exactly at the root")
	nd.left = vDiscover(c.Clone().Left(), nd, budget)
	nd.right = vDiscover(c.Clone().Right(), nd, budget)
	return nd
}

func vAPIInorder(nd *vAPINode, out *[]*vAPINode) {
	if nd == nil {
		return
	}
	vAPIInorder(nd.left, out)
	nd.idx = len(*out)
	*out = append(*out, nd)
	vAPIInorder(nd.right, out)
}

func vAPIMove(nodes []*vAPINode, cur *vAPINode, m int) *vAPINode {
	if cur == nil {
		return nil
	}
	switch m {
	case 0:
		if cur.idx+1 < len(nodes) {
			return nodes[cur.idx+1]
		}
		return nil
	case 1:
		if cur.idx > 0 {
			return nodes[cur.idx-1]
		}
		return nil
	case 2:
		return cur.left
	case 3:
		return cur.right
	case 4:
		return cur.parent
	case 5:
		for cur.left != nil {
			cur = cur.left
		}
		return cur
	default:
		for cur.right != nil {
			cur = cur.right
		}
		return cur
	}
}

func vAPICheck(nodes []*vAPINode, c *Cursor[vKT], cur *vAPINode, what string) {
	vAssert(c.Valid() == (cur != nil), what+": validity matches the reference position")
	if cur == nil {
		vAssert(c.Key() == vKT{}, what+": invalid cursor yields the zero key")
		vAssert(!c.HasNext() && !c.HasPrev() && !c.HasLeft() && !c.HasRight() && !c.HasParent(), what+": invalid cursor has no neighbours")
		return
	}
	vAssert(c.Key().Tag == cur.key.Tag, what+": Key is the key at the reference position")
	vAssert(c.HasNext() == (cur.idx+1 < len(nodes)), what+": HasNext predicts Next")
	vAssert(c.HasPrev() == (cur.idx > 0), what+": HasPrev predicts Prev")
	vAssert(c.HasLeft() == (cur.left != nil), what+": HasLeft")
	vAssert(c.HasRight() == (cur.right != nil), what+": HasRight")
	vAssert(c.HasParent() == (cur.parent != nil), what+": HasParent")
}

// VH_stree_CursorShapeAPI: exported API only. A tree is grown from symbolic
// keys in a solver-chosen insertion order (every shape the implementation can
// produce for that many keys is reached); its shape is discovered through
// Root/Left/Right, must be a search tree holding each key exactly once, and
// every move from every node must then agree with that shape and with the
// sorted order.
func VH_stree_CursorShapeAPI() {
	n := vCase("n")
	t := New[vKT](vBeta(), vCmpKT)
	var ref []vKT
	for i := 0; i < n; i++ {
		k := vKT{vOrd("k"), i}
		pos, present := vRefFind(ref, k)
		vAssume(!present)
		ref = vInsertAt(ref, pos, k)
		vAssert(t.Add(k), "Add of a new key")
	}
	budget := n
	root := vDiscover(t.Root(), nil, &budget)
	var nodes []*vAPINode
	vAPIInorder(root, &nodes)
	vAssert(len(nodes) == n, "the shape holds every key exactly once")
	for i := range nodes {
		if i < len(ref) {
			vAssert(nodes[i].key.Tag == ref[i].Tag, "in-order reading of the shape is the sorted key sequence")
		}
	}
	vCover("cursor-shape-api")
	if n == 0 {
		vAssert(!t.Root().Valid(), "Root of an empty tree is invalid")
		return
	}
	start := nodes[vChoice("start", n)]
	c := t.Cursor(start.key)
	vAPICheck(nodes, c, start, "Cursor(key)")
	// subtree iteration
	var want []*vAPINode
	vAPISub(start, &want)
	wantKeys := make([]vKT, len(want))
	for i, w := range want {
		wantKeys[i] = w.key
	}
	vInorderReuse(c, wantKeys)
	var sub []vKT
	c.Inorder(func(k vKT) bool { sub = append(sub, k); return true })
	vAssert(len(sub) == len(want), "cursor Inorder lists exactly its subtree")
	for i := range sub {
		if i < len(want) {
			vAssert(sub[i].Tag == want[i].key.Tag, "cursor Inorder lists its subtree in ascending order")
		}
	}
	mark := c.Clone()
	cur := start
	for s := 0; s < vCase("moves"); s++ {
		m := vChoice("move", 7)
		got := vMoveCursor(c, m)
		vAssert(got == c, "moves return the receiver")
		cur = vAPIMove(nodes, cur, m)
		vAPICheck(nodes, c, cur, "after move")
		vAPICheck(nodes, mark, start, "bookmark clone after moving the original")
	}
}

func vAPISub(nd *vAPINode, out *[]*vAPINode) {
	if nd == nil {
		return
	}
	vAPISub(nd.left, out)
	*out = append(*out, nd)
	vAPISub(nd.right, out)
}

// vInorderReuse: a walk abandoned part way (the callback returns false at a
// solver-chosen element) and a walk whose callback itself walks and queries the
// same cursor (read-only re-entrancy) must leave later walks of that cursor
// complete. want is the subtree's ascending key sequence.
func vInorderReuse(c *Cursor[vKT], want []vKT) {
	if len(want) == 0 {
		return
	}
	stop := vChoice("stop-at", len(want))
	seen := 0
	c.Inorder(func(k vKT) bool { seen++; return seen <= stop })
	vAssert(seen == stop+1, "cursor Inorder stops when the callback returns false")
	// read-only re-entrancy at the same element
	seen = 0
	outer := 0
	c.Inorder(func(k vKT) bool {
		if outer == stop {
			inner := 0
			c.Inorder(func(vKT) bool { inner++; return true })
			vAssert(inner == len(want), "a walk started from inside a walk of the same cursor is complete")
			vAssert(c.Valid() && c.Key().Tag == want[0].Tag || c.Key().Tag != want[0].Tag, "queries from inside a walk are harmless")
		}
		outer++
		return true
	})
	vAssert(outer == len(want), "a walk is not disturbed by a walk started from its own callback")
	vCover("inorder-reuse")
}

// VH_stree_CursorNil: nil and invalid cursors are harmless.
func VH_stree_CursorNil() {
	var c *Cursor[vKT]
	t := New[vKT](500, vCmpKT)
	for _, cc := range []*Cursor[vKT]{c, {}, t.Root(), t.Cursor(vKT{1, 1})} {
		vAssert(!cc.Valid(), "nil/empty cursor is invalid")
		vAssert(cc.Key() == vKT{}, "zero key")
		vAssert(!cc.HasNext() && !cc.HasPrev() && !cc.HasLeft() && !cc.HasRight() && !cc.HasParent(), "no neighbours")
		for m := 0; m < 7; m++ {
			vAssert(vMoveCursor(cc, m) == cc, "moves on an invalid cursor are no-ops returning the receiver")
			vAssert(!cc.Valid(), "still invalid")
		}
		cnt := 0
		cc.Inorder(func(vKT) bool { cnt++; return true })
		vAssert(cnt == 0, "Inorder of an invalid cursor yields nothing")
		vAssert(!cc.Clone().Valid(), "Clone of an invalid cursor is invalid")
	}
	vCover("cursor-nil")
}

func VT_stree_cursor() {
	t := New(500, vIntCmp, 50, 20, 80, 10, 30, 60, 90, 70, 25, 27)
	var fw, bw []int
	for c := t.Root().Min(); c.Valid(); c.Next() {
		fw = append(fw, c.Key())
	}
	for c := t.Root().Max(); c.Valid(); c.Prev() {
		bw = append(bw, c.Key())
	}
	vOut("walk", fw, bw)
	c := t.Cursor(27)
	vOut("at27", c.Valid(), c.Key(), c.HasNext(), c.HasPrev(), c.HasLeft(), c.HasRight(), c.HasParent())
	vOut("up", c.Up().Key(), c.Up().Key(), t.Cursor(26) == nil)
}
