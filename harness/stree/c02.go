package stree

// C02: height stays within the scapegoat bound: depth <= log_{2000/(1000+β)}(P) + 1,
// P = peak Len since the tree was created, cleared or last empty.

func vFloorLog2(n int) int {
	r := -1
	for n > 0 {
		n >>= 1
		r++
	}
	return r
}

// vAPIDepth measures depth through the exported cursor API only.
func vAPIDepth(c *Cursor[vKT]) int {
	if !c.Valid() {
		return -1
	}
	d := -1
	if c.HasLeft() {
		if l := vAPIDepth(c.Clone().Left()); l > d {
			d = l
		}
	}
	if c.HasRight() {
		if r := vAPIDepth(c.Clone().Right()); r > d {
			d = r
		}
	}
	return d + 1
}

// VH_stree_HeightHistory: exported API only; keys in symbolic order (the solver
// enumerates every insertion order, sorted/reverse/zig-zag included), removals interleaved.
func VH_stree_HeightHistory() {
	beta := vBeta()
	t := New[vKT](beta, vCmpKT)
	var ref []vKT
	P := 0
	steps := vCase("steps")
	for s := 0; s < steps; s++ {
		op := 0
		if s >= vCase("adds") {
			op = 2 * vChoice("add-or-remove", 2)
		}
		ref = vApplyOp(t, ref, op, s, "height history")
		if len(ref) > P {
			P = len(ref)
		}
		if len(ref) == 0 {
			P = 0
		}
		vAssert(vDepthBoundOK(beta, P, vAPIDepth(t.Root())), "depth bound holds after every operation")
	}
	vCover("height-history")
}

// VH_stree_HeightRuns: exported API only. Long monotone and zig-zag insertion
// runs (the adversarial orders for an unbalanced tree) of symbolic keys whose
// relative order is fixed by assumption, so the run is a single path; then a
// removal run from one end. Depth is measured through the cursor API after
// every operation.
func VH_stree_HeightRuns() {
	n, pat := vCase("n"), vCase("pattern")
	beta := vBeta()
	t := New[vKT](beta, vCmpKT)
	keys := make([]vKT, n)
	for i := range keys {
		keys[i] = vKT{vOrd("k"), i}
		if i > 0 {
			vAssume(keys[i-1].K < keys[i].K)
		}
	}
	// insertion order by pattern: 0 ascending, 1 descending, 2 outside-in zig-zag, 3 inside-out
	order := make([]int, 0, n)
	switch pat {
	case 0:
		for i := 0; i < n; i++ {
			order = append(order, i)
		}
	case 1:
		for i := n - 1; i >= 0; i-- {
			order = append(order, i)
		}
	case 2:
		for lo, hi := 0, n-1; lo <= hi; lo, hi = lo+1, hi-1 {
			order = append(order, lo)
			if hi != lo {
				order = append(order, hi)
			}
		}
	default:
		for lo, hi := (n-1)/2, (n-1)/2+1; lo >= 0 || hi < n; lo, hi = lo-1, hi+1 {
			if lo >= 0 {
				order = append(order, lo)
			}
			if hi < n {
				order = append(order, hi)
			}
		}
	}
	P := 0
	for _, i := range order {
		vAssert(t.Add(keys[i]), "Add of a new key")
		P++
		vAssert(t.Len() == P, "Len counts the keys added")
		vAssert(vDepthBoundOK(beta, P, vAPIDepth(t.Root())), "depth bound holds after every insertion of the run")
	}
	vCover("height-runs")
	// drain from the small end: P stays at its peak until the tree is empty
	for i := 0; i < n; i++ {
		vAssert(t.Remove(keys[i]), "Remove of a present key")
		if i == n-1 {
			vAssert(!t.Root().Valid(), "the drained tree is empty")
		} else {
			vAssert(vDepthBoundOK(beta, P, vAPIDepth(t.Root())), "depth bound holds after every removal of the run")
		}
	}
	// and grow again from empty: the peak restarts
	P = 0
	for _, i := range order {
		if P >= 8 {
			break
		}
		vAssert(t.Add(keys[i]), "Add after draining")
		P++
		vAssert(vDepthBoundOK(beta, P, vAPIDepth(t.Root())), "depth bound holds with the peak counted from the last empty state")
	}
}

// VH_stree_BulkHeight: New from n distinct keys has the minimum height floor(log2 n).
func VH_stree_BulkHeight() {
	n := vCase("n")
	keys := make([]vKT, n)
	for i := range keys {
		keys[i] = vKT{vOrd("k"), i}
		for j := 0; j < i; j++ {
			vAssume(keys[j].K != keys[i].K)
		}
	}
	t := New(vBeta(), vCmpKT, keys...)
	vCover("bulk-height")
	vAssert(t.Len() == n, "New: all distinct keys stored")
	vAssert(vAPIDepth(t.Root()) == vFloorLog2(n), "New from n distinct keys has height floor(log2 n)")
}
