#!/bin/sh
# usage: tools/harmless_verify.sh <dir> <name>  — confirms a behaviour-preserving change in a scratch worktree and
# files it under seeded/harmless/<name>/. Checks: patch applies; suite passes with it; the author's randomized
# reference-model test passes both with and without it.
src="$1"; name="$2"
export GOFLAGS=-mod=mod GOPROXY=off GOSUMDB=off GOTOOLCHAIN=local
wt=/tmp/hv_wt_$$
git -C /repo worktree add -q --detach "$wt" HEAD || exit 3
trap 'git -C /repo worktree remove --force "$wt" >/dev/null 2>&1; rm -f /tmp/hv_*_$$.log' EXIT
place=$(head -1 "$src/check_test.go" | sed -n 's|^// *place in: *\([a-z/]*\).*|\1|p' | sed 's|/$||')
[ -n "$place" ] || { echo "no place-in comment"; exit 3; }
cd "$wt"
cp "$src/check_test.go" "$place/zz_harmless_check_test.go"
if ! timeout 900 go test -vet=off -count=1 ./"$place"/ >/tmp/hv_a_$$.log 2>&1; then echo "CHECKTEST-FAILS-WITHOUT-CHANGE"; tail -5 /tmp/hv_a_$$.log; exit 1; fi
git apply "$src/patch.diff" || { echo "PATCH-DOES-NOT-APPLY"; exit 1; }
if ! timeout 900 go test -vet=off -count=1 ./... >/tmp/hv_b_$$.log 2>&1; then echo "SUITE-OR-CHECKTEST-FAILS-WITH-CHANGE"; grep -v "^ok\|no test files" /tmp/hv_b_$$.log | tail -8; exit 1; fi
mkdir -p /verif/seeded/harmless/"$name"
cp "$src/patch.diff" "$src/check_test.go" /verif/seeded/harmless/"$name"/
python3 - "$src/meta.json" /verif/seeded/harmless/"$name"/meta.json "$place" <<'PY'
import json,sys,subprocess
m=json.load(open(sys.argv[1]))
m['check_place']=sys.argv[3]
m['confirmed']={'suite_and_checktest_with_change':'go test -vet=off -count=1 ./... : pass','checktest_without_change':'pass','repo_head':subprocess.check_output(['git','-C','/repo','rev-parse','--short','HEAD']).decode().strip()}
json.dump(m,open(sys.argv[2],'w'),indent=1)
PY
echo "CONFIRMED-HARMLESS $name"
