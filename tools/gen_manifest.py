#!/usr/bin/env python3
"""Regenerates /verif/MANIFEST.json from checks/*.json and the table below."""
import json, os
V = '/verif'
props = [json.loads(l) for l in open(f'{V}/properties.jsonl')]
claimed = {
 'C01': ('§5 C01', 'one Add/Replace/Remove/Clear/Clone step from every tree shape of the stated sizes with symbolic keys, plus API histories and bulk New, against a reference sorted set'),
 'C02': ('§5 C02', 'inductive height invariant (peak-size bound) checked over one step from every shape of the stated sizes, for concrete balance factors and with the depth-limit function abstracted to a table of solver variables (all balance factors at once), exact integer bound arithmetic; the limit-function lemma for every balance factor; API histories and long adversarial insertion runs; bulk New minimal height'),
 'C03': ('§5 C03', 'cursor navigation from every node of every tree shape of the stated sizes against the shape itself (constructed shapes, and shapes grown through the API in every insertion order and discovered through Root/Left/Right)'),
 'C04': ('§5 C04', 'omap step and history harnesses against a reference sorted map, iterators from First/Last/Seek with symbolic targets'),
 'C05': ('§5 C05', 'one operation from every valid heap of the stated sizes with symbolic priorities (both directions), then draining pops; Sort; heapify of arbitrary data'),
 'C06': ('§5 C06', 'update-callback positions checked against Peek after Set and after each of up to two further operations on symbolic priorities'),
 'C07': ('§5 C07', 'white-box step from every ring state (capacity, head, length) of the stated sizes with symbolic contents, plus exported-API histories from every constructor'),
 'C08': ('§5 C08', 'sequential LRU histories with symbolic keys/values/sizes against a reference LRU, eviction order and callback accounting'),
 'C09': ('§5 C09', 'bounded sequentialised exploration of interpreted threads with lock-granularity schedule points, happens-before race detection and linearizability against the C08 reference'),
 'C10': ('§5 C10', 'stack/list/queue/ring edit histories with symbolic values against reference sequences; stale-cursor panic obligations'),
 'C11': ('§5 C11', 'all equality patterns of lhs/rhs of the stated lengths (symbolic elements): script execution, span identity, LCS-minimality, canonical form; long inputs at size thresholds with two symbolic elements'),
 'C12': ('§5 C12', 'all order/equality patterns of inputs of the stated lengths (symbolic elements) under natural, reversed and non-unit comparators, against O(n^2) reference optima'),
 'C13': ('§5 C13', 'all equality patterns of Left/Right of the stated lengths: chunk consumption/production after New, AddContext(n), Unify; multi-byte symbolic lines (the solver constructs digest collisions)'),
 'C14': ('§5 C14', 'format/parse round trips and reference appliers over the real formatter output for all diffs of the stated sizes; header names and timestamps through the interpreted time package'),
 'C15': ('§5 C15', 'all byte strings of the stated lengths (every byte symbolic): Split∘Quote, Split∘Join, and a reference POSIX word evaluator'),
 'C16': ('§5 C16', 'all byte strings of the stated lengths against an independent reference tokenizer; Scanner under arbitrary reader fragmentation; Rest'),
 'C17': ('§5 C17', 'every keep/drop pattern, every k and n in and around the valid range, symbolic contents, storage identity of results'),
 'C18': ('§5 C18', 'set operations over symbolic members (all equality patterns), nil/empty operands, every map iteration order'),
 'C19': ('§5 C19', 'every random outcome as a solver variable: exact regime, Len bound, Count = Len*2^k, monotone k, Reset; coin obligations; large buffers with a few symbolic coins'),
 'C20': ('§5 C20', 'mbits on windows of the stated lengths/offsets with all bytes symbolic incl. unsafe-window check; Trunc over all byte strings/cuts; CompareNatural order axioms over all short strings'),
}
na_reason = {}
checks = []
na = []
served = []
for p in props:
    pid = p['id']
    spec = f'{V}/checks/{pid}.json'
    if os.path.exists(spec) and pid in claimed:
        s = json.load(open(spec))
        tiers = set(s.get('jobs', {}).keys())
        for u in s.get('units', []):
            tiers |= set(u.get('jobs', {}).keys())
        ref, text = claimed[pid]
        c = {"property_id": pid,
             "quick_cmd": f"./run check {pid} --tier quick",
             "evidence_file": f"evidence/{pid}.json",
             "replay_cmd_template": "./run replay {path}",
             "engine": "symgo",
             "level_claimed": {"category": "model_checking",
                               "text": "bounded symbolic execution of the real code (go/ssa -> SMT): " + text + "; every obligation is decided by the solver for all values within the stated bounds, counterexamples are replayed natively before being reported",
                               "design_ref": "DESIGN.md " + ref},
             "level_note": "bounded result: sizes/lengths as listed in evidence.coverage.bounds, everything else in coverage.outside_bounds is not claimed; trusted base: the SSA executor in /verif/engine (self-tested against native runs on every check), go/ssa, the SMT solver, listed intrinsics",
             "technique": "symbolic execution of go/ssa with SMT (z3; cvc5/z3-new cross-check), bounded; native replay of counterexamples"}
        if 'thorough' in tiers:
            c["thorough_cmd"] = f"./run check {pid} --tier thorough"
        checks.append(c)
        served.append(pid)
    else:
        na.append({"property_id": pid, "reason": na_reason.get(pid, "check not built yet (work in progress; see DESIGN.md §7)")})
m = {"version": 1,
     "setup_cmd": "./run setup",
     "hooks": {"guard": "verif",
               "enable": "no source hooks: harnesses and the run-time shim are overlaid in memory (go/packages Overlay for the engine, go test -overlay for native replay); nothing is compiled into /repo",
               "baseline_off_cmd": "cd /repo && GOFLAGS=-mod=mod GOPROXY=off go test -vet=off -count=1 ./...",
               "source_commits": [], "add_only": True},
     "engines": [{"name": "symgo", "path": "engine/", "serves_properties": served,
                  "kind_free_text": "symbolic executor for go/ssa (SSA -> SMT-LIB2; z3 4.8.12 primary, z3 5.1.0 and cvc5 second opinion), forking DFS with re-execution, native replay of counterexamples via go test -overlay"}],
     "checks": checks,
     "notes": "All checks are bounded; see DESIGN.md. Known findings are listed in known_findings.json.",
     "not_applicable": na}
json.dump(m, open(f'{V}/MANIFEST.json', 'w'), indent=1)
print("claimed:", served)
