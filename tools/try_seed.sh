#!/bin/sh
# usage: tools/try_seed.sh <patch.diff> <check-id> [tier]  — applies a seeded change to /repo, runs the check, reverts.
patch="$(realpath "$1")"; id="$2"; tier="${3:-quick}"
cd /verif
if [ -n "$(git -C /repo status --porcelain)" ]; then echo "/repo not clean" >&2; exit 3; fi
git -C /repo apply "$patch" || exit 3
VERIF_EVIDENCE_DIR=/tmp/try_seed_ev ./run check "$id" --tier "$tier" --no-selftest > /tmp/try_seed.out 2>&1
rc=$?
git -C /repo checkout -- . && git -C /repo clean -fdq
grep -E "^(VIOLATION|KNOWN-FINDING|INCONCLUSIVE|ENCODING|VACUOUS|STALE|check )" /tmp/try_seed.out | cut -c1-220
echo "rc=$rc"
