#!/bin/sh
# Runs every filed seeded change against the quick check of its property, in a
# scratch worktree (never /repo itself), and writes seeded/RESULTS.md.
# HARMLESS=1 SEED_GLOB='harmless/C*' SEED_OUT=seeded/RESULTS_harmless.md: behaviour-preserving changes (exit 1 = false alarm).
cd /verif
wt=/tmp/seedmx_$$
git -C /repo worktree add -q --detach "$wt" HEAD || exit 3
trap 'git -C /repo worktree remove --force "$wt" >/dev/null 2>&1' EXIT
out=${SEED_OUT:-seeded/RESULTS.md}
tier="${1:-quick}"
{
echo "# Seeded changes vs. checks (tier $tier, repo $(git -C /repo rev-parse --short HEAD), verif $(git rev-parse --short HEAD))"
echo
echo "| seed | property | outcome | first report |"
echo "|---|---|---|---|"
} > "$out.tmp"
for d in seeded/${SEED_GLOB:-C*-*m*}; do
  name=$(basename "$d"); prop=${name%%-*}
  git -C "$wt" checkout -q -- . ; git -C "$wt" clean -fdq
  if ! git -C "$wt" apply "$(realpath $d/patch.diff)" 2>/dev/null; then echo "| $name | $prop | PATCH-DOES-NOT-APPLY | |" >> "$out.tmp"; continue; fi
  VERIF_EVIDENCE_DIR=/tmp/seedmx_ev VERIF_REPO="$wt" ./bin/symgo check --spec checks/$prop.json --tier "$tier" --no-selftest > /tmp/seedmx_out_$$ 2>&1
  rc=$?
  first=$(grep -A1 -m1 "^VIOLATION" /tmp/seedmx_out_$$ | tail -1 | sed 's/|/\\|/g' | cut -c1-160)
  if [ -n "$HARMLESS" ]; then case $rc in 1) oc="FALSE-ALARM";; 0) oc="quiet";; *) oc="inconclusive(rc=$rc)"; first=$(grep -m1 "^INCONCLUSIVE\|^ENCODING\|^STALE" /tmp/seedmx_out_$$ | cut -c1-160);; esac
  else
  case $rc in 1) oc="caught";; 0) oc="MISSED";; *) oc="inconclusive(rc=$rc)"; first=$(grep -m1 "^INCONCLUSIVE\|^ENCODING" /tmp/seedmx_out_$$ | cut -c1-160);; esac
  fi
  echo "| $name | $prop | $oc | $first |" >> "$out.tmp"
  echo "$name $oc"
done
rm -f /tmp/seedmx_out_$$
mv "$out.tmp" "$out"
