#!/bin/sh
# usage: tools/seed_verify.sh <seed_dir> <name>   — confirms a seeded change in a scratch worktree and files it under seeded/<name>/
# checks: (1) patch applies, suite passes with it; (2) demo fails with it; (3) demo passes without it.
src="$1"; name="$2"
export GOFLAGS=-mod=mod GOPROXY=off GOSUMDB=off GOTOOLCHAIN=local
wt=/tmp/sv_wt_$$
git -C /repo worktree add -q --detach "$wt" HEAD || exit 3
trap 'git -C /repo worktree remove --force "$wt" >/dev/null 2>&1' EXIT
place=$(head -1 "$src/demo_test.go" | sed -n 's|^// *place in: *\([a-z/]*\).*|\1|p' | sed 's|/$||')
[ -n "$place" ] || { echo "no place-in comment"; exit 3; }
cd "$wt"
git apply "$src/patch.diff" || { echo "PATCH-DOES-NOT-APPLY"; exit 1; }
extra=""
grep -q '"needs_race": *true\|-race' "$src/meta.json" 2>/dev/null && extra="-race"
if ! go test -vet=off -count=1 ./... >/tmp/sv_suite_$$.log 2>&1; then echo "SUITE-FAILS-WITH-CHANGE"; tail -5 /tmp/sv_suite_$$.log; rm -f /tmp/sv_suite_$$.log; exit 1; fi
rm -f /tmp/sv_suite_$$.log
cp "$src/demo_test.go" "$place/zz_seed_demo_test.go"
if timeout 300 go test -vet=off -count=1 $extra ./"$place"/ >/tmp/sv_demo_$$.log 2>&1; then echo "DEMO-PASSES-WITH-CHANGE (not a demonstration)"; rm -f /tmp/sv_demo_$$.log; exit 1; fi
failmsg=$(grep -m3 -E "^\s+.*(_test.go:[0-9]+:|panic:|DATA RACE|fatal error)" /tmp/sv_demo_$$.log | head -3 | cut -c1-200)
rm -f /tmp/sv_demo_$$.log
git apply -R "$src/patch.diff"
if ! timeout 300 go test -vet=off -count=1 $extra ./"$place"/ >/tmp/sv_demo2_$$.log 2>&1; then echo "DEMO-FAILS-WITHOUT-CHANGE"; tail -5 /tmp/sv_demo2_$$.log; rm -f /tmp/sv_demo2_$$.log; exit 1; fi
rm -f /tmp/sv_demo2_$$.log
mkdir -p /verif/seeded/"$name"
cp "$src/patch.diff" "$src/demo_test.go" /verif/seeded/"$name"/
python3 - "$src/meta.json" /verif/seeded/"$name"/meta.json "$place" "$extra" "$failmsg" <<'PY'
import json,sys
m=json.load(open(sys.argv[1]))
m['demo_place']=sys.argv[3]
m['confirmed']={'suite_with_change':'go test -vet=off -count=1 ./... : pass','demo_with_change':'go test -vet=off -count=1 %s ./%s/ : FAIL'%(sys.argv[4],sys.argv[3]),'demo_without_change':'same command on the unmodified tree: pass','first_failure_lines':sys.argv[5],'repo_head':__import__('subprocess').check_output(['git','-C','/repo','rev-parse','--short','HEAD']).decode().strip()}
json.dump(m,open(sys.argv[2],'w'),indent=1)
PY
echo "CONFIRMED $name"
