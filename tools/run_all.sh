#!/bin/sh
# usage: tools/run_all.sh [quick|thorough]  — runs every registered check on /repo's current tree
# (evidence/<id>.json is rewritten by each); prints one summary line per property.
cd "$(dirname "$0")/.."
tier="${1:-quick}"
rc_all=0
for i in 01 02 03 04 05 06 07 08 09 10 11 12 13 14 15 16 17 18 19 20; do
  out=$(./run check C$i --tier "$tier" 2>&1); rc=$?
  echo "$out" | grep "^check \|^VIOLATION\|^KNOWN-FINDING\|^INCONCLUSIVE\|^ENCODING\|^VACUOUS\|^SELFTEST\|^STALE" | cut -c1-160
  [ $rc -ne 0 ] && rc_all=1
done
exit $rc_all
