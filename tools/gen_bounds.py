#!/usr/bin/env python3
"""Writes /verif/BOUNDS.md: the registered job grids (the stated bounds) per property and tier."""
import json, glob, os
out = ["# Registered bounds", "",
       "Generated from `checks/*.json` by `tools/gen_bounds.py`. Each line is one harness entry with the",
       "values of its case parameters (sizes, modes); everything symbolic inside a job is decided by the solver",
       "for all values. Anything not listed is outside the claim.", ""]
for f in sorted(glob.glob('/verif/checks/C*.json')):
    s = json.load(open(f))
    out.append(f"## {s['property']}")
    units = s.get('units') or [s]
    for tier in ('quick', 'thorough'):
        out.append(f"**{tier}**")
        out.append("")
        for u in units:
            for j in u.get('jobs', {}).get(tier, []):
                cases = ", ".join(f"{k}∈{v}" for k, v in sorted(j.get('cases', {}).items()))
                extra = ""
                if j.get('map_order'):
                    extra += f" [map order: {j['map_order']}]"
                if j.get('max_steps'):
                    extra += f" [step budget {j['max_steps']}]"
                out.append(f"- `{u['package']}.{j['entry']}`: {cases}{extra}")
        out.append("")
    ob = list(s.get('outside_bounds', []))
    for u in s.get('units', []):
        ob += u.get('outside_bounds', [])
    if ob:
        out.append("Outside the bounds: " + "; ".join(ob))
        out.append("")
open('/verif/BOUNDS.md', 'w').write("\n".join(out) + "\n")
print("written")
