package main

import (
	"fmt"
	"go/constant"
	"go/token"
	"go/types"
	"math"
	"unicode/utf8"

	"golang.org/x/tools/go/ssa"
)

func constString(c *ssa.Const) Value {
	if c.Value.Kind() == constant.String {
		return constant.StringVal(c.Value)
	}
	return string(rune(c.Int64()))
}

// toTerm lifts an integer value of kind k to a term.
func (ex *Exec) intTerm(v Value, k intKind) *Term {
	switch v := v.(type) {
	case *Term:
		return v
	case int64:
		return ex.tc.BV(k.w, uint64(v))
	}
	panic(engineError(fmt.Sprintf("intTerm of %T", v)))
}

func (ex *Exec) boolTerm(v Value) *Term {
	switch v := v.(type) {
	case *Term:
		return v
	case bool:
		return ex.tc.Bool(v)
	}
	panic(engineError(fmt.Sprintf("boolTerm of %T", v)))
}

// widen converts a BV term of kind k to width `to` (sign- or zero-extending, or truncating).
func (ex *Exec) widen(t *Term, k intKind, to int) *Term {
	w := int(t.Sort.W)
	switch {
	case w == to:
		return t
	case w > to:
		return ex.tc.Extract(t, to-1, 0)
	case k.signed:
		return ex.tc.SExt(t, to)
	default:
		return ex.tc.ZExt(t, to)
	}
}

func isOrd(v Value) bool {
	t, ok := v.(*Term)
	return ok && t.Sort.K == SInt
}

func (ex *Exec) ordTerm(v Value) *Term {
	switch v := v.(type) {
	case *Term:
		if v.Sort.K == SInt {
			return v
		}
		panic(unsupported("order-only value mixed with a bit-vector value"))
	case int64:
		return ex.tc.IntConst(v)
	}
	panic(engineError(fmt.Sprintf("ordTerm of %T", v)))
}

func (ex *Exec) binop(op token.Token, tx, ty types.Type, x, y Value) Value {
	switch op {
	case token.EQL:
		return ex.equals(tx, x, y)
	case token.NEQ:
		return ex.not(ex.equals(tx, x, y))
	}
	if k, ok := basicInt(tx); ok {
		return ex.intBinop(op, k, ty, x, y)
	}
	if isFloat(tx) {
		xf, ok1 := x.(float64)
		yf, ok2 := y.(float64)
		if !ok1 || !ok2 {
			panic(unsupported("symbolic float"))
		}
		f32 := tx.Underlying().(*types.Basic).Kind() == types.Float32
		rnd := func(f float64) Value {
			if f32 {
				return float64(float32(f))
			}
			return f
		}
		switch op {
		case token.ADD:
			return rnd(xf + yf)
		case token.SUB:
			return rnd(xf - yf)
		case token.MUL:
			return rnd(xf * yf)
		case token.QUO:
			return rnd(xf / yf)
		case token.LSS:
			return xf < yf
		case token.LEQ:
			return xf <= yf
		case token.GTR:
			return xf > yf
		case token.GEQ:
			return xf >= yf
		}
	}
	if isString(tx) {
		switch op {
		case token.ADD:
			xs, ok1 := x.(string)
			ys, ok2 := y.(string)
			if ok1 && ok2 {
				return xs + ys
			}
			return mkStr(append(append([]Value{}, strBytes(x)...), strBytes(y)...))
		case token.LSS:
			return ex.strLess(x, y)
		case token.GTR:
			return ex.strLess(y, x)
		case token.LEQ:
			return ex.not(ex.strLess(y, x))
		case token.GEQ:
			return ex.not(ex.strLess(x, y))
		}
	}
	if isBoolT(tx) {
		// && and || are control flow in SSA; only & | ^ style on bools do not exist
	}
	panic(unsupported(fmt.Sprintf("binary op %s on %s", op, tx)))
}

func (ex *Exec) not(v Value) Value {
	switch v := v.(type) {
	case bool:
		return !v
	case *Term:
		return ex.tc.Not(v)
	}
	panic(engineError(fmt.Sprintf("not of %T", v)))
}

func (ex *Exec) intBinop(op token.Token, k intKind, ty types.Type, x, y Value) Value {
	xi, xc := x.(int64)
	yi, yc := y.(int64)
	if xc && yc {
		return ex.concIntBinop(op, k, ty, xi, yi)
	}
	// order-only values: comparisons only
	if isOrd(x) || isOrd(y) {
		a, b := ex.ordTerm(x), ex.ordTerm(y)
		switch op {
		case token.LSS:
			return ex.boolVal(ex.tc.Lt(a, b, true))
		case token.LEQ:
			return ex.boolVal(ex.tc.Le(a, b, true))
		case token.GTR:
			return ex.boolVal(ex.tc.Lt(b, a, true))
		case token.GEQ:
			return ex.boolVal(ex.tc.Le(b, a, true))
		}
		panic(unsupported(fmt.Sprintf("arithmetic (%s) on an order-only value", op)))
	}
	a := ex.intTerm(x, k)
	tc := ex.tc
	if op == token.SHL || op == token.SHR {
		ky, _ := basicInt(ty)
		b := ex.intTerm(y, ky)
		if ky.signed {
			// negative shift count panics
			neg := tc.Lt(b, tc.BV(ky.w, 0), true)
			if ex.branch(neg) {
				ex.rtPanic("negative shift amount")
			}
		}
		// saturate the count into k.w bits
		var cnt *Term
		if ky.w > k.w {
			big := tc.Le(tc.BV(ky.w, uint64(k.w)), b, false)
			cnt = tc.Ite(big, tc.BV(k.w, uint64(k.w)), tc.Extract(b, k.w-1, 0))
		} else {
			cnt = tc.ZExt(b, k.w)
		}
		switch {
		case op == token.SHL:
			return ex.intVal(tc.bin(OpShl, a, cnt), k)
		case k.signed:
			return ex.intVal(tc.bin(OpAShr, a, cnt), k)
		default:
			return ex.intVal(tc.bin(OpLShr, a, cnt), k)
		}
	}
	b := ex.intTerm(y, k)
	switch op {
	case token.ADD:
		return ex.intVal(tc.Add(a, b), k)
	case token.SUB:
		return ex.intVal(tc.Sub(a, b), k)
	case token.MUL:
		return ex.intVal(tc.Mul(a, b), k)
	case token.QUO, token.REM:
		if ex.condBool(ex.boolVal(tc.Eq(b, tc.BV(k.w, 0)))) {
			ex.rtPanic("integer divide by zero")
		}
		var o Op
		switch {
		case op == token.QUO && k.signed:
			o = OpSDiv
		case op == token.QUO:
			o = OpUDiv
		case k.signed:
			o = OpSRem
		default:
			o = OpURem
		}
		return ex.intVal(tc.bin(o, a, b), k)
	case token.AND:
		return ex.intVal(tc.BAnd(a, b), k)
	case token.OR:
		return ex.intVal(tc.BOr(a, b), k)
	case token.XOR:
		return ex.intVal(tc.BXor(a, b), k)
	case token.AND_NOT:
		return ex.intVal(tc.BAnd(a, tc.BNot(b)), k)
	case token.LSS:
		return ex.boolVal(tc.Lt(a, b, k.signed))
	case token.LEQ:
		return ex.boolVal(tc.Le(a, b, k.signed))
	case token.GTR:
		return ex.boolVal(tc.Lt(b, a, k.signed))
	case token.GEQ:
		return ex.boolVal(tc.Le(b, a, k.signed))
	}
	panic(unsupported(fmt.Sprintf("integer op %s", op)))
}

func (ex *Exec) boolVal(t *Term) Value {
	if t.IsConst() {
		return t.Val == 1
	}
	return t
}

func (ex *Exec) intVal(t *Term, k intKind) Value {
	if t.IsConst() && t.Sort.K == SBV {
		return k.norm(int64(t.Val))
	}
	return t
}

func (ex *Exec) concIntBinop(op token.Token, k intKind, ty types.Type, x, y int64) Value {
	ux, uy := uint64(x), uint64(y)
	switch op {
	case token.ADD:
		return k.norm(x + y)
	case token.SUB:
		return k.norm(x - y)
	case token.MUL:
		return k.norm(x * y)
	case token.QUO:
		if y == 0 {
			ex.rtPanic("integer divide by zero")
		}
		if k.signed {
			if y == -1 {
				return k.norm(-x)
			}
			return k.norm(x / y)
		}
		return k.norm(int64(ux / uy))
	case token.REM:
		if y == 0 {
			ex.rtPanic("integer divide by zero")
		}
		if k.signed {
			if y == -1 {
				return int64(0)
			}
			return k.norm(x % y)
		}
		return k.norm(int64(ux % uy))
	case token.AND:
		return k.norm(x & y)
	case token.OR:
		return k.norm(x | y)
	case token.XOR:
		return k.norm(x ^ y)
	case token.AND_NOT:
		return k.norm(x &^ y)
	case token.SHL, token.SHR:
		ky, _ := basicInt(ty)
		if ky.signed && y < 0 {
			ex.rtPanic("negative shift amount")
		}
		if uy >= 64 {
			if op == token.SHR && k.signed && x < 0 {
				return int64(-1)
			}
			return int64(0)
		}
		if op == token.SHL {
			return k.norm(x << uy)
		}
		if k.signed {
			return k.norm(x >> uy)
		}
		return k.norm(int64(ux >> uy))
	case token.LSS:
		if k.signed {
			return x < y
		}
		return ux < uy
	case token.LEQ:
		if k.signed {
			return x <= y
		}
		return ux <= uy
	case token.GTR:
		if k.signed {
			return x > y
		}
		return ux > uy
	case token.GEQ:
		if k.signed {
			return x >= y
		}
		return ux >= uy
	}
	panic(unsupported(fmt.Sprintf("integer op %s", op)))
}

func (ex *Exec) strLess(x, y Value) Value {
	if xs, ok := x.(string); ok {
		if ys, ok := y.(string); ok {
			return xs < ys
		}
	}
	a, b := strBytes(x), strBytes(y)
	tc := ex.tc
	// lexicographic: build from the end
	n := len(a)
	if len(b) < n {
		n = len(b)
	}
	res := tc.Bool(len(a) < len(b))
	bk := intKind{8, false}
	for i := n - 1; i >= 0; i-- {
		ai, bi := ex.intTerm(a[i], bk), ex.intTerm(b[i], bk)
		res = tc.Ite(tc.Lt(ai, bi, false), tc.True, tc.Ite(tc.Eq(ai, bi), res, tc.False))
	}
	return ex.boolVal(res)
}

// equals implements == for type t; the result is bool or *Term.
func (ex *Exec) equals(t types.Type, x, y Value) Value {
	switch ut := t.Underlying().(type) {
	case *types.Basic:
		if k, ok := basicInt(ut); ok {
			xi, xc := x.(int64)
			yi, yc := y.(int64)
			if xc && yc {
				return xi == yi
			}
			if isOrd(x) || isOrd(y) {
				return ex.boolVal(ex.tc.Eq(ex.ordTerm(x), ex.ordTerm(y)))
			}
			return ex.boolVal(ex.tc.Eq(ex.intTerm(x, k), ex.intTerm(y, k)))
		}
		switch {
		case ut.Info()&types.IsBoolean != 0:
			xb, xc := x.(bool)
			yb, yc := y.(bool)
			if xc && yc {
				return xb == yb
			}
			return ex.boolVal(ex.tc.Eq(ex.boolTerm(x), ex.boolTerm(y)))
		case ut.Info()&types.IsFloat != 0:
			return x.(float64) == y.(float64)
		case ut.Info()&types.IsString != 0:
			return ex.strEq(x, y)
		case ut.Kind() == types.UnsafePointer:
			xp, yp := x.(UPtr), y.(UPtr)
			if xp.base == nil || yp.base == nil {
				return (xp.base == nil) == (yp.base == nil)
			}
			return &xp.base[xp.idx] == &yp.base[yp.idx]
		case ut.Kind() == types.UntypedNil:
			return true
		}
	case *types.Pointer:
		return ex.concPtrOrNil(x) == ex.concPtrOrNil(y)
	case *types.Struct:
		xs, ys := x.(Struct), y.(Struct)
		var conj []*Term
		for i := range xs {
			if ut.Field(i).Name() == "_" {
				continue
			}
			r := ex.equals(ut.Field(i).Type(), xs[i], ys[i])
			switch r := r.(type) {
			case bool:
				if !r {
					return false
				}
			case *Term:
				conj = append(conj, r)
			}
		}
		return ex.boolVal(ex.tc.And(conj...))
	case *types.Array:
		xs, ys := x.(Array), y.(Array)
		var conj []*Term
		for i := range xs {
			r := ex.equals(ut.Elem(), xs[i], ys[i])
			switch r := r.(type) {
			case bool:
				if !r {
					return false
				}
			case *Term:
				conj = append(conj, r)
			}
		}
		return ex.boolVal(ex.tc.And(conj...))
	case *types.Interface:
		xi, yi := x.(iface), y.(iface)
		if xi.t == nil || yi.t == nil {
			return xi.t == nil && yi.t == nil
		}
		if !types.Identical(xi.t, yi.t) {
			return false
		}
		if !types.Comparable(xi.t) {
			ex.rtPanic("comparing uncomparable type %s", xi.t)
		}
		return ex.equals(xi.t, xi.v, yi.v)
	case *types.Map:
		return (x.(*Map) == nil) == (y.(*Map) == nil) && (x.(*Map) == nil || y.(*Map) == nil)
	case *types.Slice:
		xs, ys := x.([]Value), y.([]Value)
		return (xs == nil) == (ys == nil) && (xs == nil || ys == nil)
	case *types.Signature:
		return isNilFunc(x) == isNilFunc(y) && (isNilFunc(x) || isNilFunc(y))
	}
	panic(unsupported(fmt.Sprintf("== on %s (%T)", t, x)))
}

func isNilFunc(v Value) bool {
	switch f := v.(type) {
	case *ssa.Function:
		return f == nil
	case *closure:
		return f == nil
	case *ssa.Builtin:
		return f == nil
	}
	return false
}

func (ex *Exec) concPtrOrNil(x Value) *Value {
	switch x := x.(type) {
	case *Value:
		return x
	case *SymRef:
		return ex.concPtr(x)
	}
	panic(engineError(fmt.Sprintf("pointer compare on %T", x)))
}

func (ex *Exec) strEq(x, y Value) Value {
	if xs, ok := x.(string); ok {
		if ys, ok := y.(string); ok {
			return xs == ys
		}
	}
	a, b := strBytes(x), strBytes(y)
	if len(a) != len(b) {
		return false
	}
	var conj []*Term
	bk := intKind{8, false}
	for i := range a {
		ai, aok := a[i].(int64)
		bi, bok := b[i].(int64)
		if aok && bok {
			if ai != bi {
				return false
			}
			continue
		}
		conj = append(conj, ex.tc.Eq(ex.intTerm(a[i], bk), ex.intTerm(b[i], bk)))
	}
	return ex.boolVal(ex.tc.And(conj...))
}

func (ex *Exec) unop(instr *ssa.UnOp, x Value) Value {
	switch instr.Op {
	case token.MUL:
		return ex.loadFrom(deref(instr.X.Type()), x)
	case token.NOT:
		return ex.not(x)
	case token.SUB:
		if k, ok := basicInt(instr.X.Type()); ok {
			switch x := x.(type) {
			case int64:
				return k.norm(-x)
			case *Term:
				if x.Sort.K == SInt {
					panic(unsupported("negation of an order-only value"))
				}
				return ex.intVal(ex.tc.Neg(x), k)
			}
		}
		if f, ok := x.(float64); ok {
			return -f
		}
	case token.XOR:
		if k, ok := basicInt(instr.X.Type()); ok {
			switch x := x.(type) {
			case int64:
				return k.norm(^x)
			case *Term:
				if x.Sort.K == SInt {
					panic(unsupported("complement of an order-only value"))
				}
				return ex.intVal(ex.tc.BNot(x), k)
			}
		}
	case token.ARROW:
		panic(unsupported("channel receive"))
	}
	panic(unsupported(fmt.Sprintf("unary op %s on %T", instr.Op, x)))
}

// conv implements ssa.Convert.
func (ex *Exec) conv(fr *frame, instr *ssa.Convert, tdst, tsrc types.Type, x Value) Value {
	usrc, udst := tsrc.Underlying(), tdst.Underlying()
	ks, srcInt := basicInt(usrc)
	kd, dstInt := basicInt(udst)
	switch {
	case srcInt && dstInt:
		switch x := x.(type) {
		case int64:
			return kd.norm(x)
		case *Term:
			if x.Sort.K == SInt {
				if ks.w == kd.w {
					return x
				}
				panic(unsupported("width conversion of an order-only value"))
			}
			return ex.intVal(ex.widen(x, ks, kd.w), kd)
		}
	case srcInt && isFloat(udst):
		xi, ok := x.(int64)
		if !ok {
			panic(unsupported("symbolic integer to float conversion"))
		}
		var f float64
		if ks.signed {
			f = float64(xi)
		} else {
			f = float64(uint64(xi))
		}
		if udst.(*types.Basic).Kind() == types.Float32 {
			f = float64(float32(f))
		}
		return f
	case isFloat(usrc) && dstInt:
		f := x.(float64)
		if kd.signed {
			return kd.norm(int64(f))
		}
		return kd.norm(int64(uint64(f)))
	case isFloat(usrc) && isFloat(udst):
		f := x.(float64)
		if udst.(*types.Basic).Kind() == types.Float32 {
			f = float64(float32(f))
		}
		return f
	case srcInt && isString(udst):
		xi, ok := x.(int64)
		if !ok {
			// a symbolic rune: run the real utf8.AppendRune on it (forks per encoding length)
			pkg := ex.w.prog.ssa.ImportedPackage("unicode/utf8")
			if ks.w > 32 || pkg == nil || pkg.Func("AppendRune") == nil {
				panic(unsupported("string(symbolic rune)"))
			}
			t := x.(*Term)
			if t.Sort.K == SInt {
				panic(unsupported("string(order-only value)"))
			}
			if ks.w < 32 {
				if ks.signed {
					t = ex.tc.SExt(t, 32)
				} else {
					t = ex.tc.ZExt(t, 32)
				}
			}
			res := ex.callFunction(nil, pkg.Func("AppendRune"), []Value{[]Value(nil), t})
			return mkStr(res.([]Value))
		}
		if xi < 0 || xi > utf8.MaxRune {
			return "�"
		}
		return string(rune(xi))
	case isString(usrc) && isString(udst):
		return x
	}
	if sl, ok := usrc.(*types.Slice); ok && isString(udst) {
		// []byte / []rune -> string
		b := sl.Elem().Underlying().(*types.Basic)
		xs := x.([]Value)
		if b.Kind() == types.Byte {
			for _, c := range xs {
				ex.noteCell(c)
			}
			return mkStr(xs)
		}
		rs := make([]rune, len(xs))
		for i, r := range xs {
			ri, ok := r.(int64)
			if !ok {
				panic(unsupported("string([]rune) with symbolic runes"))
			}
			rs[i] = rune(ri)
		}
		return string(rs)
	}
	if sl, ok := udst.(*types.Slice); ok && isString(usrc) {
		b := sl.Elem().Underlying().(*types.Basic)
		if b.Kind() == types.Byte {
			src := strBytes(x)
			out := make([]Value, len(src))
			copy(out, src)
			return out
		}
		s, ok := x.(string)
		if !ok {
			panic(unsupported("[]rune(symbolic string)"))
		}
		var out []Value
		for _, r := range s {
			out = append(out, int64(r))
		}
		if out == nil {
			out = []Value{}
		}
		return out
	}
	// unsafe conversions
	if b, ok := udst.(*types.Basic); ok && b.Kind() == types.UnsafePointer {
		if _, isPtr := usrc.(*types.Pointer); isPtr {
			if p, isU := x.(UPtr); isU {
				return UPtr{base: p.base, idx: p.idx}
			}
			// recover the slice window from the defining IndexAddr
			if instr != nil {
				if ia, ok := instr.X.(*ssa.IndexAddr); ok {
					if base, ok := fr.get(ia.X).([]Value); ok {
						ik, _ := basicInt(ia.Index.Type())
						i := ex.concInt(fr.get(ia.Index), ik)
						return UPtr{base: base, idx: int(i)}
					}
				}
			}
			if p, ok := x.(*Value); ok && p == nil {
				return UPtr{}
			}
			panic(unsupported("unsafe.Pointer from a pointer that is not &slice[i]"))
		}
	}
	if b, ok := usrc.(*types.Basic); ok && b.Kind() == types.UnsafePointer {
		if pt, isPtr := udst.(*types.Pointer); isPtr {
			p := x.(UPtr)
			return UPtr{base: p.base, idx: p.idx, elem: pt.Elem()}
		}
	}
	panic(unsupported(fmt.Sprintf("conversion %s -> %s (%T)", tsrc, tdst, x)))
}

func (ex *Exec) unsafeLoad(T types.Type, p UPtr) Value {
	if at, isArr := T.Underlying().(*types.Array); isArr {
		// an array of integers: element-wise
		ek, ok := basicInt(at.Elem())
		if !ok {
			panic(unsupported("unsafe load of " + T.String()))
		}
		out := make(Array, at.Len())
		for i := range out {
			out[i] = ex.unsafeLoad(at.Elem(), UPtr{base: p.base, idx: p.idx + i*ek.w/8, elem: at.Elem()})
		}
		return out
	}
	k, ok := basicInt(T)
	if !ok {
		panic(unsupported("unsafe load of " + T.String()))
	}
	n := k.w / 8
	if p.base == nil {
		ex.rtPanic("invalid memory address or nil pointer dereference")
	}
	base := p.base
	if p.idx < 0 || p.idx+n > len(p.base) {
		detail := fmt.Sprintf("%d-byte load at offset %d of a %d-byte slice", n, p.idx, len(p.base))
		if p.idx < 0 || p.idx+n > cap(p.base) {
			ex.fail("unsafe", "unsafe access outside the slice", detail)
		}
		// inside the backing array: carry on so that an observable effect can be
		// reported (and replayed natively) first; reported at path end otherwise
		if ex.pendingUnsafe == "" {
			ex.pendingUnsafe = detail
		}
		base = p.base[:cap(p.base)]
	}
	bk := intKind{8, false}
	// little-endian
	res := ex.intTerm(base[p.idx+n-1], bk)
	for i := n - 2; i >= 0; i-- {
		res = ex.tc.Concat(res, ex.intTerm(base[p.idx+i], bk))
	}
	return ex.intVal(res, k)
}

func (ex *Exec) unsafeStore(T types.Type, p UPtr, v Value) {
	if at, isArr := T.Underlying().(*types.Array); isArr {
		ek, ok := basicInt(at.Elem())
		if !ok {
			panic(unsupported("unsafe store of " + T.String()))
		}
		for i, e := range v.(Array) {
			ex.unsafeStore(at.Elem(), UPtr{base: p.base, idx: p.idx + i*ek.w/8, elem: at.Elem()}, e)
		}
		return
	}
	k, ok := basicInt(T)
	if !ok {
		panic(unsupported("unsafe store of " + T.String()))
	}
	n := k.w / 8
	if p.base == nil {
		ex.rtPanic("invalid memory address or nil pointer dereference")
	}
	base := p.base
	if p.idx < 0 || p.idx+n > len(p.base) {
		detail := fmt.Sprintf("%d-byte store at offset %d of a %d-byte slice", n, p.idx, len(p.base))
		if p.idx < 0 || p.idx+n > cap(p.base) {
			ex.fail("unsafe", "unsafe access outside the slice", detail)
		}
		if ex.pendingUnsafe == "" {
			ex.pendingUnsafe = detail
		}
		base = p.base[:cap(p.base)]
	}
	t := ex.intTerm(v, k)
	bk := intKind{8, false}
	for i := 0; i < n; i++ {
		base[p.idx+i] = ex.intVal(ex.tc.Extract(t, 8*i+7, 8*i), bk)
	}
}

// slice implements x[lo:hi:max].
func (ex *Exec) slice(instr *ssa.Slice, x, lo, hi, max Value) Value {
	var Len, Cap int64
	isStr := false
	var arr []Value
	switch x := x.(type) {
	case string, *SymStr:
		Len = int64(strLen(x))
		Cap = Len
		isStr = true
	case []Value:
		Len, Cap = int64(len(x)), int64(cap(x))
		arr = x
	case *Value:
		if x == nil {
			ex.rtPanic("invalid memory address or nil pointer dereference")
		}
		a := (*x).(Array)
		Len, Cap = int64(len(a)), int64(cap(a))
		arr = a
	default:
		panic(engineError(fmt.Sprintf("slice of %T", x)))
	}
	k := intKind{64, true}
	l, h, m := int64(0), Len, Cap
	if lo != nil {
		l = ex.concInt(lo, k)
	}
	if hi != nil {
		h = ex.concInt(hi, k)
	}
	if max != nil {
		m = ex.concInt(max, k)
	}
	if isStr {
		if h < 0 || h > Len {
			ex.rtPanic("slice bounds out of range [:%d] with length %d", h, Len)
		}
		if l < 0 || l > h {
			ex.rtPanic("slice bounds out of range [%d:%d]", l, h)
		}
		if s, ok := x.(string); ok {
			return s[l:h]
		}
		return mkStr(x.(*SymStr).b[l:h])
	}
	if m < 0 || m > Cap {
		ex.rtPanic("slice bounds out of range [::%d] with capacity %d", m, Cap)
	}
	if h < 0 || h > m {
		if max == nil {
			ex.rtPanic("slice bounds out of range [:%d] with capacity %d", h, Cap)
		}
		ex.rtPanic("slice bounds out of range [:%d:%d]", h, m)
	}
	if l < 0 || l > h {
		ex.rtPanic("slice bounds out of range [%d:%d]", l, h)
	}
	if arr == nil {
		// slicing a nil slice yields nil
		return []Value(nil)
	}
	return arr[l:h:m]
}

func (ex *Exec) typeAssert(instr *ssa.TypeAssert, itf iface) Value {
	var v Value
	err := ""
	if itf.t == nil {
		err = fmt.Sprintf("interface conversion: interface is nil, not %s", instr.AssertedType)
	} else if idst, ok := instr.AssertedType.Underlying().(*types.Interface); ok {
		v = itf
		if meth, _ := types.MissingMethod(itf.t, idst, true); meth != nil {
			err = fmt.Sprintf("interface conversion: %v is not %v: missing method %s", itf.t, instr.AssertedType, meth.Name())
		}
	} else if types.Identical(itf.t, instr.AssertedType) {
		v = itf.v
	} else {
		err = fmt.Sprintf("interface conversion: interface is %s, not %s", itf.t, instr.AssertedType)
	}
	if err != "" {
		if !instr.CommaOk {
			ex.rtPanic("%s", err)
		}
		return tuple{zero(instr.AssertedType), false}
	}
	if instr.CommaOk {
		return tuple{v, true}
	}
	return v
}

// ---------- maps ----------

// findEntry locates key in m, forking over "equals entry i" / "equals none"
// when the comparison is symbolic.
func (ex *Exec) findEntry(m *Map, kt types.Type, key Value) *mapEntry {
	if m == nil {
		return nil
	}
	if _, isIface := kt.Underlying().(*types.Interface); isIface {
		if it, ok := key.(iface); ok && it.t != nil && !types.Comparable(it.t) {
			ex.rtPanic("hash of unhashable type %s", it.t)
		}
	}
	for _, e := range m.entries {
		if e.dead {
			continue
		}
		if ex.condBool(ex.equals(kt, e.k, key)) {
			return e
		}
	}
	return nil
}

func (ex *Exec) lookup(instr *ssa.Lookup, x, idx Value) Value {
	m, ok := x.(*Map)
	if !ok {
		panic(engineError(fmt.Sprintf("Lookup on %T", x)))
	}
	mt := instr.X.Type().Underlying().(*types.Map)
	ex.noteMap(m, false)
	e := ex.findEntry(m, mt.Key(), idx)
	var v Value
	if e != nil {
		v = copyVal(e.v)
	} else {
		v = zero(mt.Elem())
	}
	if instr.CommaOk {
		return tuple{v, e != nil}
	}
	return v
}

func (ex *Exec) mapUpdate(m *Map, kt types.Type, key, v Value) {
	ex.noteMap(m, true)
	if e := ex.findEntry(m, kt, key); e != nil {
		e.v = v
		return
	}
	m.entries = append(m.entries, &mapEntry{k: key, v: v})
	m.n++
}

func (ex *Exec) mapDelete(m *Map, kt types.Type, key Value) {
	if m == nil {
		return
	}
	ex.noteMap(m, true)
	if e := ex.findEntry(m, kt, key); e != nil {
		e.dead = true
		m.n--
	}
}

// ---------- range ----------

type iterator interface {
	next(ex *Exec) tuple
}

type mapIter struct {
	m       *Map
	pending []*mapEntry // live entries at the time of Range, not yet visited
	seen    map[*mapEntry]bool
	started bool
}

func (it *mapIter) next(ex *Exec) tuple {
	if it.m == nil {
		return tuple{false, nil, nil}
	}
	ex.noteMap(it.m, false)
	// entries added during iteration may or may not be visited: we do not
	// visit them (one of the behaviours the language allows)
	var live []*mapEntry
	for _, e := range it.pending {
		if !e.dead {
			live = append(live, e)
		}
	}
	if len(live) == 0 {
		return tuple{false, nil, nil}
	}
	var pick int
	switch ex.job.mapOrder {
	case "first":
		pick = 0
	case "rot":
		// rotations of insertion order (what the gc runtime does for maps of
		// up to 8 entries): one choice at the first step, then in order
		if !it.started {
			if len(live) > 1 {
				ex.mapChoices++
			}
			pick = ex.choice(len(live))
			if pick > 0 {
				live = append(append([]*mapEntry{}, live[pick:]...), live[:pick]...)
				pick = 0
			}
		}
	default:
		if len(live) > 1 {
			ex.mapChoices++
		}
		pick = ex.choice(len(live))
	}
	it.started = true
	e := live[pick]
	it.pending = nil
	for i, x := range live {
		if i != pick {
			it.pending = append(it.pending, x)
		}
	}
	return tuple{true, e.k, copyVal(e.v)}
}

type stringIter struct {
	s   string
	pos int
}

func (it *stringIter) next(ex *Exec) tuple {
	if it.pos >= len(it.s) {
		return tuple{false, int64(0), int64(0)}
	}
	r, n := utf8.DecodeRuneInString(it.s[it.pos:])
	p := it.pos
	it.pos += n
	return tuple{true, int64(p), int64(r)}
}

// symStringIter ranges over a string with symbolic bytes by running the real
// utf8.DecodeRuneInString on the remaining suffix at every step.
type symStringIter struct {
	s   *SymStr
	pos int
}

func (it *symStringIter) next(ex *Exec) tuple {
	if it.pos >= len(it.s.b) {
		return tuple{false, int64(0), int64(0)}
	}
	pkg := ex.w.prog.ssa.ImportedPackage("unicode/utf8")
	if pkg == nil || pkg.Func("DecodeRuneInString") == nil {
		panic(unsupported("range over a symbolic string: unicode/utf8 not loaded"))
	}
	res := ex.callFunction(nil, pkg.Func("DecodeRuneInString"), []Value{mkStr(it.s.b[it.pos:])}).(tuple)
	size := ex.concInt(res[1], intKind{64, true})
	p := it.pos
	it.pos += int(size)
	return tuple{true, int64(p), res[0]}
}

func (ex *Exec) rangeIter(x Value) iterator {
	switch x := x.(type) {
	case *Map:
		it := &mapIter{m: x}
		if x != nil {
			for _, e := range x.entries {
				if !e.dead {
					it.pending = append(it.pending, e)
				}
			}
		}
		return it
	case string:
		return &stringIter{s: x}
	case *SymStr:
		return &symStringIter{s: x}
	}
	panic(engineError(fmt.Sprintf("range over %T", x)))
}

var _ = math.Abs
