package main

import (
	"encoding/json"
	"fmt"
	"os"
	"os/exec"
	"path/filepath"
	"sort"
	"strings"
	"time"
)

type evidence struct {
	prop           string
	o              *checkOpts
	states         int
	transitions    int
	obligations    int
	discharged     int
	concrete       int
	queries        int
	sat, unsat     int
	solverS        float64
	pruned         int
	paths          map[string]int
	cover          map[string]int
	funcs          map[string]bool
	intrinsics     map[string]bool
	samples        []sample
	jobs           []string
	phases         []string
	stale          []string
	inconclusive   []string
	knownFindings  []string
	selftestTraces int
	replays        int
	violations     int
	wall           float64
	exit           int
	loadS          float64
	crossChecked   int
	crossDisagree  int
	notes          map[string]int
	crossSolvers   []string
}

func newEvidence(prop string, o *checkOpts) *evidence {
	return &evidence{prop: prop, o: o, paths: map[string]int{}, cover: map[string]int{}, funcs: map[string]bool{}, intrinsics: map[string]bool{}}
}

func (ev *evidence) absorb(results []*unitResult, phase string) {
	ev.phases = append(ev.phases, phase)
	for _, ur := range results {
		ev.loadS += ur.loadS
		if ur.run == nil {
			continue
		}
		r := ur.run
		for k, n := range r.paths {
			ev.paths[k.String()] += n
		}
		ev.states += r.paths[outOK] + r.paths[outViolation]
		ev.pruned += r.paths[outPruned]
		ev.transitions += r.transitions
		ev.obligations += r.nAssert
		ev.discharged += r.nDischarged
		ev.concrete += r.nConcrete
		ev.queries += r.queries
		ev.sat += r.satN
		ev.unsat += r.unsatN
		ev.solverS += r.solverTime.Seconds()
		for c, n := range r.cover {
			ev.cover[c] += n
		}
		for m, n := range r.notes {
			if ev.notes == nil {
				ev.notes = map[string]int{}
			}
			ev.notes[m] += n
		}
		for f := range r.funcs {
			ev.funcs[f] = true
		}
		for f := range r.intrinsics {
			ev.intrinsics[f] = true
		}
		if len(ev.samples) < 8 {
			ev.samples = append(ev.samples, r.samples...)
		}
		for _, j := range ur.jobs {
			if len(ev.jobs) < 400 {
				ev.jobs = append(ev.jobs, fmt.Sprintf("%s: %d paths", j, j.npaths))
			}
		}
	}
}

// cross re-decides the dumped queries with the other solvers.
func (ev *evidence) cross(o *checkOpts, results []*unitResult) {
	type q struct{ file, want string }
	var qs []q
	for _, ur := range results {
		if ur.run == nil {
			continue
		}
		// results are aligned with files per worker; collected in execute()
		for i, f := range ur.run.dumpFiles {
			if i < len(ur.run.dumpResults) {
				qs = append(qs, q{f, ur.run.dumpResults[i]})
			}
		}
	}
	if len(qs) == 0 {
		return
	}
	others := []string{"z3-new", "cvc5"}
	if o.solver != "z3" {
		others = []string{"z3", "cvc5"}
	}
	ev.crossSolvers = others
	for _, x := range qs {
		for _, s := range others {
			var cmd *exec.Cmd
			if s == "cvc5" {
				cmd = exec.Command("cvc5", "--lang=smt2", "--tlimit=60000", x.file)
			} else {
				cmd = exec.Command(s, "-T:60", x.file)
			}
			out, _ := cmd.Output()
			ans := strings.TrimSpace(strings.Split(string(out)+"\n", "\n")[0])
			ev.crossChecked++
			if ans != x.want && (ans == "sat" || ans == "unsat") {
				ev.crossDisagree++
				fmt.Printf("CROSS-SOLVER-DISAGREEMENT %s: %s says %s, %s said %s\n", x.file, s, ans, o.solver, x.want)
				keep := filepath.Join(o.verif, "replays", "cross-"+filepath.Base(x.file))
				if b, err := os.ReadFile(x.file); err == nil {
					os.MkdirAll(filepath.Dir(keep), 0o755)
					os.WriteFile(keep, b, 0o644)
				}
			}
		}
	}
}

func (ev *evidence) write(verif string, spec *CheckSpec) error {
	var funcs, repoFuncs, intr []string
	for f := range ev.funcs {
		funcs = append(funcs, f)
		if strings.Contains(f, repoModule) && !isHarnessFunc(f) {
			repoFuncs = append(repoFuncs, f)
		}
	}
	sort.Strings(funcs)
	sort.Strings(repoFuncs)
	for f := range ev.intrinsics {
		intr = append(intr, f)
	}
	sort.Strings(intr)
	var samples []interface{}
	for _, s := range ev.samples {
		samples = append(samples, s)
	}
	if len(samples) == 0 {
		samples = append(samples, "no completed path")
	}
	assumptions := []string{
		"bounded result: only the sizes/values listed in coverage.bounds were explored; everything in coverage.outside_bounds is not claimed",
		"engine trusted base: the SSA->SMT executor in /verif/engine (validated per run by the self-test traces), go/ssa construction, and the SMT solver's unsat answers",
		"append growth follows the go1.23 amd64 runtime policy emulated in builtins.go",
	}
	for _, f := range intr {
		assumptions = append(assumptions, "intrinsic model used: "+f)
	}
	for m, n := range ev.notes {
		assumptions = append(assumptions, fmt.Sprintf("%s (%d paths cut)", m, n))
	}
	assumptions = append(assumptions, spec.Assumptions...)
	for _, u := range spec.Units {
		assumptions = append(assumptions, u.Assumptions...)
	}
	states, trans := ev.states, ev.transitions
	cov := map[string]interface{}{
		"states":                        states,
		"transitions":                   trans,
		"traces_validated_against_impl": ev.selftestTraces + ev.replays,
		"samples":                       samples,
		"obligations":                   ev.obligations,
		"discharged":                    ev.discharged,
		"concretely_true":               ev.concrete,
		"queries":                       ev.queries,
		"queries_sat":                   ev.sat,
		"queries_unsat":                 ev.unsat,
		"solver_time_s":                 round1(ev.solverS),
		"solver":                        ev.o.solver,
		"pruned_paths":                  ev.pruned,
		"paths_by_outcome":              ev.paths,
		"cover":                         ev.cover,
		"functions_encoded":             repoFuncs,
		"functions_encoded_total":       len(funcs),
		"instantiations":                collect(spec, func(s *CheckSpec) []string { return s.Instantiation }),
		"bounds":                        boundsText(spec, ev.o.tier),
		"outside_bounds":                collect(spec, func(s *CheckSpec) []string { return s.OutsideBounds }),
		"jobs":                          ev.jobs,
		"phases":                        ev.phases,
		"stale_harnesses":               ev.stale,
		"inconclusive":                  ev.inconclusive,
		"known_findings":                ev.knownFindings,
		"selftest_traces":               ev.selftestTraces,
		"native_replays":                ev.replays,
		"cross_solver":                  map[string]interface{}{"solvers": ev.crossSolvers, "queries_redecided": ev.crossChecked, "disagreements": ev.crossDisagree},
		"load_s":                        round1(ev.loadS),
		"exit":                          ev.exit,
		"tree_rev":                      treeRev(ev.o.repo),
		"generated_at":                  time.Now().UTC().Format(time.RFC3339),
		"explanation":                   "symbolic execution of the go/ssa form of the real code; states = feasible symbolic paths completed, transitions = symbolic decisions taken; every obligation is an SMT query (or concretely true) over all values within the bounds",
	}
	if states == 0 {
		cov["states"] = 0
		delete(cov, "states") // fall back to generic keys so the file still validates
		delete(cov, "transitions")
		cov["evaluations"] = 1
		cov["distinct_nontrivial"] = 0
	}
	doc := map[string]interface{}{
		"property_id": ev.prop,
		"tier":        ev.o.tier,
		"seed":        ev.o.seed,
		"level":       "model_checking",
		"coverage":    cov,
		"assumptions": assumptions,
		"wall_s":      round1(ev.wall),
		"violations":  ev.violations,
	}
	b, err := json.MarshalIndent(doc, "", " ")
	if err != nil {
		return err
	}
	dir := filepath.Join(verif, "evidence")
	if d := os.Getenv("VERIF_EVIDENCE_DIR"); d != "" {
		dir = d // scratch runs against modified trees must not overwrite the committed evidence
	}
	if err := os.MkdirAll(dir, 0o755); err != nil {
		return err
	}
	return os.WriteFile(filepath.Join(dir, ev.prop+".json"), b, 0o644)
}

func round1(f float64) float64 { return float64(int(f*10+0.5)) / 10 }

func collect(spec *CheckSpec, f func(*CheckSpec) []string) []string {
	out := append([]string{}, f(spec)...)
	for _, u := range spec.Units {
		out = append(out, f(u)...)
	}
	return out
}

func boundsText(spec *CheckSpec, tier string) []string {
	var out []string
	if t, ok := spec.BoundsText[tier]; ok {
		out = append(out, t)
	}
	for _, u := range spec.Units {
		if t, ok := u.BoundsText[tier]; ok {
			out = append(out, u.Package+": "+t)
		}
	}
	add := func(s *CheckSpec) {
		for _, j := range s.Jobs[tier] {
			b, _ := json.Marshal(j.Cases)
			out = append(out, fmt.Sprintf("%s/%s cases %s", s.Package, j.Entry, b))
		}
	}
	if len(spec.Units) == 0 {
		add(spec)
	}
	for _, u := range spec.Units {
		add(u)
	}
	return out
}

// isHarnessFunc reports whether an SSA function name denotes harness code
// (VH_/VT_/VF_ entries, v* shim and helper functions, and their closures).
func isHarnessFunc(name string) bool {
	base := name
	if i := strings.IndexByte(base, '['); i >= 0 {
		base = base[:i]
	}
	if i := strings.LastIndexByte(base, '/'); i >= 0 {
		base = base[i+1:]
	}
	// base is like "slice.Partition" or "(*heapq.Queue).Add" or "heapq.VH_x$1"
	if strings.HasPrefix(base, "(") {
		return false
	}
	if i := strings.IndexByte(base, '.'); i >= 0 {
		base = base[i+1:]
	}
	return strings.HasPrefix(base, "VH_") || strings.HasPrefix(base, "VT_") || strings.HasPrefix(base, "VF_") ||
		(len(base) > 1 && base[0] == 'v' && (base[1] >= 'A' && base[1] <= 'Z' || base[1] == 'f'))
}
