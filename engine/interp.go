package main

// SSA interpreter over symbolic values. Structure (frames, phis, defers,
// panics) follows golang.org/x/tools/go/ssa/interp; values and every
// data-dependent operation are symbolic (see value.go, ops.go).

import (
	"fmt"
	"go/token"
	"go/types"
	"os"
	"runtime/metrics"
	"slices"
	"strconv"
	"strings"
	"sync"
	"time"

	"golang.org/x/tools/go/ssa"
)

const (
	maxSteps = 400000
	maxDepth = 300
)

type frame struct {
	ex               *Exec
	caller           *frame
	fn               *ssa.Function
	block, prevBlock *ssa.BasicBlock
	env              map[ssa.Value]Value
	locals           []Value
	defers           *deferred
	result           Value
	panicking        bool
	panic            interface{}
	phitemps         []Value
	stackLen         int
}

func deref(t types.Type) types.Type {
	if p, ok := t.Underlying().(*types.Pointer); ok {
		return p.Elem()
	}
	panic(engineError("deref of non-pointer type " + t.String()))
}

func (fr *frame) get(key ssa.Value) Value {
	switch key := key.(type) {
	case nil:
		return nil
	case *ssa.Function, *ssa.Builtin:
		return key
	case *ssa.Const:
		return constValue(key)
	case *ssa.Global:
		return fr.ex.global(key)
	}
	if r, ok := fr.env[key]; ok {
		return r
	}
	panic(engineError(fmt.Sprintf("get: no value for %T: %v", key, key.Name())))
}

func constValue(c *ssa.Const) Value {
	if c.Value == nil {
		return zero(c.Type())
	}
	if t, ok := c.Type().Underlying().(*types.Basic); ok {
		switch {
		case t.Info()&types.IsBoolean != 0:
			return c.Value.String() == "true"
		case t.Info()&types.IsInteger != 0:
			k, _ := basicInt(t)
			if k.signed {
				return k.norm(c.Int64())
			}
			return k.norm(int64(c.Uint64()))
		case t.Info()&types.IsFloat != 0:
			f := c.Float64()
			if t.Kind() == types.Float32 {
				return float64(float32(f))
			}
			return f
		case t.Info()&types.IsString != 0:
			if c.Value.Kind() == 1+0 { // constant.Bool==1? handled below generically
			}
			return constString(c)
		}
	}
	panic(unsupported(fmt.Sprintf("constant %s", c)))
}

// global returns the address of a package-level variable, initialising its
// package on first touch.
func (ex *Exec) global(g *ssa.Global) *Value {
	if !initAllowed(g.Pkg.Pkg.Path(), ex.w.prog.targetPath) && !zeroGlobalOK[g.Pkg.Pkg.Path()+"."+g.Name()] && g.Pkg.Pkg.Path() != "internal/cpu" {
		panic(unsupported("global of a package whose initialiser is not interpreted: " + g.Pkg.Pkg.Path() + "." + g.Name()))
	}
	if p, ok := ex.globals[g]; ok {
		return p
	}
	ex.initPackage(g.Pkg)
	if p, ok := ex.globals[g]; ok {
		return p
	}
	panic(engineError("global not allocated: " + g.String()))
}

func (ex *Exec) initPackage(pkg *ssa.Package) {
	if ex.inited[pkg] {
		return
	}
	ex.inited[pkg] = true
	for _, m := range pkg.Members {
		if g, ok := m.(*ssa.Global); ok {
			cell := zero(deref(g.Type()))
			ex.globals[g] = &cell
		}
	}
	if !initAllowed(pkg.Pkg.Path(), ex.w.prog.targetPath) {
		return
	}
	if init := pkg.Func("init"); init != nil && init.Blocks != nil {
		ex.execFunction(nil, init, nil, nil)
	}
}

func (fr *frame) runDefer(d *deferred) {
	var ok bool
	defer func() {
		if !ok {
			r := recover()
			if ap, isAbort := r.(abortPath); isAbort {
				panic(ap)
			}
			if !isTargetPanic(r) {
				panic(r)
			}
			fr.panicking = true
			fr.panic = r
		}
	}()
	fr.ex.call(fr, d.fn, d.args)
	ok = true
}

func isTargetPanic(r interface{}) bool {
	switch r.(type) {
	case targetPanic, runtimeErr:
		return true
	}
	return false
}

func (fr *frame) runDefers() {
	for d := fr.defers; d != nil; d = d.tail {
		fr.runDefer(d)
	}
	fr.defers = nil
	if fr.panicking {
		panic(fr.panic)
	}
}

type continuation int

const (
	kNext continuation = iota
	kReturn
	kJump
)

func (ex *Exec) rtPanic(format string, args ...interface{}) {
	if ex.merging > 0 {
		panic(mergeBail{})
	}
	ex.panicStack = ex.stackString()
	panic(runtimeErr{fmt.Sprintf(format, args...)})
}

// condBool turns a boolean Value into a Go bool, forking if symbolic.
func (ex *Exec) condBool(v Value) bool {
	switch v := v.(type) {
	case bool:
		return v
	case *Term:
		return ex.branch(v)
	}
	panic(engineError(fmt.Sprintf("condition of type %T", v)))
}

// concInt turns an integer Value into a concrete one, forking over feasible values.
func (ex *Exec) concInt(v Value, k intKind) int64 {
	switch v := v.(type) {
	case int64:
		return v
	case *Term:
		if v.Sort.K == SInt {
			return int64(ex.concretise(v))
		}
		return k.norm(int64(ex.concretise(v)))
	}
	panic(engineError(fmt.Sprintf("integer of type %T", v)))
}

// resourceCheck ends a long path as inconclusive when the run's wall-clock
// budget is spent or the process heap has grown past its limit (a single
// runaway path must not evade the budget that is otherwise checked between paths).
func (ex *Exec) resourceCheck() {
	if ex.w == nil || ex.w.run == nil {
		return
	}
	r := ex.w.run
	if !r.deadline.IsZero() && time.Now().After(r.deadline) {
		panic(abortPath{outInconclusive, "wall-clock budget of the run exhausted"})
	}
	if heapOver() {
		panic(abortPath{outInconclusive, "memory budget of the run exhausted"})
	}
}

// heapOver reports whether live heap objects exceed SYMGO_MAX_HEAP_MB (default 12288).
func heapOver() bool {
	heapLimitOnce.Do(func() {
		heapLimit = 12288 << 20
		if v, err := strconv.Atoi(os.Getenv("SYMGO_MAX_HEAP_MB")); err == nil && v > 0 {
			heapLimit = uint64(v) << 20
		}
	})
	s := []metrics.Sample{{Name: "/memory/classes/heap/objects:bytes"}}
	metrics.Read(s)
	return s[0].Value.Kind() == metrics.KindUint64 && s[0].Value.Uint64() > heapLimit
}

var (
	heapLimitOnce sync.Once
	heapLimit     uint64
)

func (fr *frame) visitInstr(instr ssa.Instruction) continuation {
	ex := fr.ex
	ex.steps++
	if ex.steps&(1<<20-1) == 0 {
		ex.resourceCheck()
	}
	if ex.steps > ex.job.maxSteps {
		panic(abortPath{outBudget, fmt.Sprintf("step budget of %d SSA instructions exhausted in %s", ex.job.maxSteps, fr.fn)})
	}
	switch instr := instr.(type) {
	case *ssa.DebugRef:

	case *ssa.UnOp:
		fr.env[instr] = ex.unop(instr, fr.get(instr.X))

	case *ssa.BinOp:
		fr.env[instr] = ex.binop(instr.Op, instr.X.Type(), instr.Y.Type(), fr.get(instr.X), fr.get(instr.Y))

	case *ssa.Call:
		fn, args := fr.prepareCall(&instr.Call)
		fr.env[instr] = ex.call(fr, fn, args)

	case *ssa.ChangeInterface:
		fr.env[instr] = fr.get(instr.X)

	case *ssa.ChangeType:
		fr.env[instr] = fr.get(instr.X)

	case *ssa.Convert:
		fr.env[instr] = ex.conv(fr, instr, instr.Type(), instr.X.Type(), fr.get(instr.X))

	case *ssa.MultiConvert:
		fr.env[instr] = ex.conv(fr, nil, instr.Type(), instr.X.Type(), fr.get(instr.X))

	case *ssa.SliceToArrayPointer:
		x := fr.get(instr.X).([]Value)
		arr := deref(instr.Type()).Underlying().(*types.Array)
		if arr.Len() > int64(len(x)) {
			ex.rtPanic("cannot convert slice with length %d to array or pointer to array with length %d", len(x), arr.Len())
		}
		if x == nil {
			fr.env[instr] = (*Value)(nil)
		} else {
			v := Value(Array(x[:arr.Len():arr.Len()]))
			fr.env[instr] = &v
		}

	case *ssa.MakeInterface:
		fr.env[instr] = iface{t: instr.X.Type(), v: fr.get(instr.X)}

	case *ssa.Extract:
		fr.env[instr] = fr.get(instr.Tuple).(tuple)[instr.Index]

	case *ssa.Slice:
		fr.env[instr] = ex.slice(instr, fr.get(instr.X), fr.get(instr.Low), fr.get(instr.High), fr.get(instr.Max))

	case *ssa.Return:
		switch len(instr.Results) {
		case 0:
		case 1:
			fr.result = fr.get(instr.Results[0])
		default:
			res := make(tuple, len(instr.Results))
			for i, r := range instr.Results {
				res[i] = fr.get(r)
			}
			fr.result = res
		}
		fr.block = nil
		return kReturn

	case *ssa.RunDefers:
		fr.runDefers()

	case *ssa.Panic:
		panic(targetPanic{fr.get(instr.X)})

	case *ssa.Store:
		ex.storeTo(deref(instr.Addr.Type()), fr.get(instr.Addr), fr.get(instr.Val))

	case *ssa.If:
		succ := 1
		if ex.condBool(fr.get(instr.Cond)) {
			succ = 0
		}
		fr.prevBlock, fr.block = fr.block, fr.block.Succs[succ]
		return kJump

	case *ssa.Jump:
		fr.prevBlock, fr.block = fr.block, fr.block.Succs[0]
		return kJump

	case *ssa.Defer:
		fn, args := fr.prepareCall(&instr.Call)
		defers := &fr.defers
		if instr.DeferStack != nil {
			if into := fr.get(instr.DeferStack); into != nil {
				defers = into.(**deferred)
			}
		}
		*defers = &deferred{fn: fn, args: args, instr: instr, tail: *defers}

	case *ssa.Go:
		panic(unsupported("go statement outside vPar"))

	case *ssa.Alloc:
		var addr *Value
		if instr.Heap {
			addr = new(Value)
			fr.env[instr] = addr
		} else {
			addr = fr.env[instr].(*Value)
		}
		*addr = zero(deref(instr.Type()))

	case *ssa.MakeSlice:
		k := intKind{64, true}
		cp := ex.concInt(fr.get(instr.Cap), k)
		ln := ex.concInt(fr.get(instr.Len), k)
		if ln < 0 || ln > 1<<24 {
			ex.rtPanic("makeslice: len out of range")
		}
		if cp < ln || cp > 1<<24 {
			ex.rtPanic("makeslice: cap out of range")
		}
		s := make([]Value, cp)
		tElt := instr.Type().Underlying().(*types.Slice).Elem()
		for i := range s {
			s[i] = zero(tElt)
		}
		fr.env[instr] = s[:ln]

	case *ssa.MakeMap:
		fr.env[instr] = &Map{}

	case *ssa.Range:
		fr.env[instr] = ex.rangeIter(fr.get(instr.X))

	case *ssa.Next:
		fr.env[instr] = fr.get(instr.Iter).(iterator).next(ex)

	case *ssa.FieldAddr:
		x := fr.get(instr.X)
		p := ex.concPtr(x)
		if p == nil {
			ex.rtPanic("invalid memory address or nil pointer dereference")
		}
		fr.env[instr] = &(*p).(Struct)[instr.Field]

	case *ssa.Field:
		fr.env[instr] = fr.get(instr.X).(Struct)[instr.Field]

	case *ssa.IndexAddr:
		x := fr.get(instr.X)
		idx := fr.get(instr.Index)
		var base []Value
		switch x := x.(type) {
		case []Value:
			base = x
		case *Value:
			if x == nil {
				ex.rtPanic("invalid memory address or nil pointer dereference")
			}
			base = (*x).(Array)
		default:
			panic(engineError(fmt.Sprintf("IndexAddr on %T", x)))
		}
		ik, _ := basicInt(instr.Index.Type())
		fr.env[instr] = ex.indexAddr(base, idx, ik)

	case *ssa.Index:
		x := fr.get(instr.X)
		idx := fr.get(instr.Index)
		ik, _ := basicInt(instr.Index.Type())
		switch x := x.(type) {
		case Array:
			p := ex.indexAddr(x, idx, ik)
			fr.env[instr] = ex.loadFrom(instr.Type(), p)
		case string, *SymStr:
			b := strBytes(x)
			p := ex.indexAddr(b, idx, ik)
			fr.env[instr] = ex.loadFrom(instr.Type(), p)
		default:
			panic(engineError(fmt.Sprintf("Index on %T", x)))
		}

	case *ssa.Lookup:
		fr.env[instr] = ex.lookup(instr, fr.get(instr.X), fr.get(instr.Index))

	case *ssa.MapUpdate:
		m := fr.get(instr.Map).(*Map)
		if m == nil {
			ex.rtPanic("assignment to entry in nil map")
		}
		kt := instr.Map.Type().Underlying().(*types.Map).Key()
		ex.mapUpdate(m, kt, fr.get(instr.Key), copyVal(fr.get(instr.Value)))

	case *ssa.TypeAssert:
		fr.env[instr] = ex.typeAssert(instr, fr.get(instr.X).(iface))

	case *ssa.MakeClosure:
		bindings := make([]Value, len(instr.Bindings))
		for i, b := range instr.Bindings {
			bindings[i] = fr.get(b)
		}
		fr.env[instr] = &closure{instr.Fn.(*ssa.Function), bindings}

	case *ssa.Phi:
		panic(engineError("phi outside block entry"))

	default:
		panic(unsupported(fmt.Sprintf("instruction %T", instr)))
	}
	return kNext
}

// concPtr resolves pointer-like values to a concrete cell pointer.
func (ex *Exec) concPtr(x Value) *Value {
	switch x := x.(type) {
	case *Value:
		return x
	case *SymRef:
		i := ex.concInt(x.idx, intKind{64, true})
		return &x.base[i]
	}
	panic(engineError(fmt.Sprintf("pointer of type %T", x)))
}

// indexAddr performs the bounds check and returns an element pointer.
func (ex *Exec) indexAddr(base []Value, idx Value, ik intKind) Value {
	n := int64(len(base))
	switch i := idx.(type) {
	case int64:
		if i < 0 || i >= n {
			ex.rtPanic("index out of range [%d] with length %d", i, n)
		}
		return &base[i]
	case *Term:
		if i.Sort.K == SInt {
			c := int64(ex.concretise(i))
			if c < 0 || c >= n {
				ex.rtPanic("index out of range [%d] with length %d", c, n)
			}
			return &base[c]
		}
		t := ex.widen(i, ik, 64)
		var inRange *Term
		if ik.signed {
			inRange = ex.tc.And(ex.tc.Le(ex.tc.BV(64, 0), t, true), ex.tc.Lt(t, ex.tc.BV(64, uint64(n)), true))
		} else {
			inRange = ex.tc.Lt(t, ex.tc.BV(64, uint64(n)), false)
		}
		if !ex.branch(inRange) {
			ex.rtPanic("index out of range [symbolic] with length %d", n)
		}
		if n == 1 {
			return &base[0]
		}
		return &SymRef{base: base, idx: t}
	}
	panic(engineError(fmt.Sprintf("index of type %T", idx)))
}

// loadFrom implements *p.
func (ex *Exec) loadFrom(T types.Type, p Value) Value {
	switch p := p.(type) {
	case *Value:
		if p == nil {
			ex.rtPanic("invalid memory address or nil pointer dereference")
		}
		ex.noteAccess(p, false)
		return load(T, p)
	case *SymRef:
		// scalar cells: ite chain; otherwise fork over the index
		allScalar := true
		for _, c := range p.base {
			if !isScalar(c) {
				allScalar = false
				break
			}
		}
		if !allScalar {
			return ex.loadFrom(T, ex.concPtr(p))
		}
		return ex.iteChain(T, p)
	case UPtr:
		return ex.unsafeLoad(T, p)
	}
	panic(engineError(fmt.Sprintf("load through %T", p)))
}

func (ex *Exec) iteChain(T types.Type, p *SymRef) Value {
	// cells the index cannot reach are left out (cheap interval analysis; the
	// bounds check has already been decided on this path)
	first, last := 0, len(p.base)-1
	if lo, hi := ubounds(p.idx, 0); true {
		if lo > uint64(first) && lo <= uint64(last) {
			first = int(lo)
		}
		if hi < uint64(last) && hi >= uint64(first) {
			last = int(hi)
		}
	}
	// group equal cells
	type grp struct {
		v    Value
		idxs []int
	}
	var groups []*grp
	byVal := map[Value]*grp{}
	for i := first; i <= last; i++ {
		c := p.base[i]
		g := byVal[c]
		if g == nil {
			g = &grp{v: c}
			byVal[c] = g
			groups = append(groups, g)
		}
		g.idxs = append(g.idxs, i)
	}
	if len(groups) == 1 {
		return groups[0].v
	}
	// largest group becomes the default arm
	slices.SortStableFunc(groups, func(a, b *grp) int { return len(a.idxs) - len(b.idxs) })
	ik, isInt := basicInt(T)
	toTerm := func(v Value) *Term {
		switch v := v.(type) {
		case *Term:
			return v
		case bool:
			return ex.tc.Bool(v)
		case int64:
			if !isInt {
				panic(engineError("iteChain: int in non-int cell"))
			}
			return ex.tc.BV(ik.w, uint64(v))
		}
		panic(engineError("iteChain: non-scalar"))
	}
	// order-only values cannot be mixed with bit-vectors
	res := toTerm(groups[len(groups)-1].v)
	for gi := len(groups) - 2; gi >= 0; gi-- {
		g := groups[gi]
		var conds []*Term
		// runs of consecutive indices become one range test
		for a := 0; a < len(g.idxs); {
			b := a
			for b+1 < len(g.idxs) && g.idxs[b+1] == g.idxs[b]+1 {
				b++
			}
			lo, hi := ex.tc.BV(64, uint64(g.idxs[a])), ex.tc.BV(64, uint64(g.idxs[b]))
			switch {
			case b == a:
				conds = append(conds, ex.tc.Eq(p.idx, lo))
			case b == a+1:
				conds = append(conds, ex.tc.Eq(p.idx, lo), ex.tc.Eq(p.idx, hi))
			default:
				conds = append(conds, ex.tc.And(ex.tc.Le(lo, p.idx, false), ex.tc.Le(p.idx, hi, false)))
			}
			a = b + 1
		}
		gv := toTerm(g.v)
		if gv.Sort != res.Sort {
			return ex.loadFrom(T, ex.concPtr(p))
		}
		res = ex.tc.Ite(ex.tc.Or(conds...), gv, res)
	}
	return ex.fromTerm(res, T)
}

// fromTerm converts a constant term back to a concrete value where possible.
func (ex *Exec) fromTerm(t *Term, T types.Type) Value {
	if !t.IsConst() {
		return t
	}
	switch t.Sort.K {
	case SBool:
		return t.Val == 1
	case SInt:
		return t // order-only constants stay terms
	}
	if ik, ok := basicInt(T); ok {
		return ik.norm(int64(t.Val))
	}
	return int64(t.Val)
}

func (ex *Exec) storeTo(T types.Type, p Value, v Value) {
	switch p := p.(type) {
	case *Value:
		if p == nil {
			ex.rtPanic("invalid memory address or nil pointer dereference")
		}
		ex.noteAccess(p, true)
		store(T, p, v)
	case *SymRef:
		ex.storeTo(T, ex.concPtr(p), v)
	case UPtr:
		ex.unsafeStore(T, p, v)
	default:
		panic(engineError(fmt.Sprintf("store through %T", p)))
	}
}

func (fr *frame) prepareCall(call *ssa.CallCommon) (fn Value, args []Value) {
	v := fr.get(call.Value)
	if call.Method == nil {
		fn = v
	} else {
		recv := v.(iface)
		if recv.t == nil {
			fr.ex.rtPanic("invalid memory address or nil pointer dereference (method call on nil interface)")
		}
		f := fr.ex.w.prog.ssa.LookupMethod(recv.t, call.Method.Pkg(), call.Method.Name())
		if f == nil {
			panic(engineError(fmt.Sprintf("method set of %v lacks %s", recv.t, call.Method)))
		}
		fn = f
		args = append(args, recv.v)
	}
	for _, arg := range call.Args {
		args = append(args, fr.get(arg))
	}
	return
}

func (ex *Exec) call(caller *frame, fn Value, args []Value) Value {
	switch fn := fn.(type) {
	case *ssa.Function:
		if fn == nil {
			ex.rtPanic("invalid memory address or nil pointer dereference (call of nil func)")
		}
		return ex.callSSA(caller, fn, args, nil)
	case *closure:
		return ex.callSSA(caller, fn.Fn, args, fn.Env)
	case *ssa.Builtin:
		return ex.callBuiltin(caller, fn, args)
	}
	panic(engineError(fmt.Sprintf("cannot call %T", fn)))
}

func (ex *Exec) callFunction(caller *frame, fn *ssa.Function, args []Value) Value {
	return ex.callSSA(caller, fn, args, nil)
}

func (ex *Exec) callSSA(caller *frame, fn *ssa.Function, args []Value, env []Value) Value {
	if in := ex.w.prog.intrinsic(fn); in != nil {
		if r, handled := in(ex, caller, fn, args); handled {
			return r
		}
	}
	if fn.Pkg != nil && fn.Name() == "init" && fn.Signature.Recv() == nil && fn.Parent() == nil && fn.Synthetic != "" {
		ex.initPackage(fn.Pkg)
		return nil
	}
	if fn.Blocks == nil {
		panic(unsupported("function without body and without intrinsic: " + fn.String()))
	}
	if fn.TypeParams().Len() > 0 && len(fn.TypeArgs()) == 0 {
		panic(engineError("uninstantiated generic function " + fn.String()))
	}
	if ex.w.prog.refused(fn) {
		panic(unsupported("call into refused package: " + fn.String()))
	}
	return ex.execFunction(caller, fn, args, env)
}

func (ex *Exec) execFunction(caller *frame, fn *ssa.Function, args []Value, env []Value) Value {
	ex.depth++
	if ex.depth > maxDepth {
		panic(abortPath{outBudget, "call depth exceeded in " + fn.String()})
	}
	ex.callStack = append(ex.callStack, fn)
	ex.lastFn = fn
	stackLen := len(ex.callStack)
	normal := false
	defer func() {
		ex.depth--
		if normal {
			// on a panic the stack is left in place for diagnostics; whoever
			// recovers (runFrame, vPanics) truncates it
			ex.callStack = ex.callStack[:stackLen-1]
		}
	}()
	if !ex.funcs[fn] {
		ex.funcs[fn] = true
	}
	if r, ok := ex.tryMerged(fn, args, env); ok {
		normal = true
		return r
	}
	fr := &frame{ex: ex, caller: caller, fn: fn}
	fr.env = make(map[ssa.Value]Value, 16)
	fr.block = fn.Blocks[0]
	fr.locals = make([]Value, len(fn.Locals))
	for i, l := range fn.Locals {
		fr.locals[i] = zero(deref(l.Type()))
		fr.env[l] = &fr.locals[i]
	}
	for i, p := range fn.Params {
		fr.env[p] = args[i]
	}
	for i, fv := range fn.FreeVars {
		fr.env[fv] = env[i]
	}
	fr.stackLen = stackLen
	for fr.block != nil {
		fr.runFrame()
	}
	normal = true
	return fr.result
}

func (fr *frame) runFrame() {
	defer func() {
		if fr.block == nil {
			return
		}
		r := recover()
		if !isTargetPanic(r) {
			panic(r) // engine abort or interpreter crash: not visible to the target
		}
		fr.panicking = true
		fr.panic = r
		fr.ex.callStack = fr.ex.callStack[:fr.stackLen]
		fr.runDefers()
		fr.block = fr.fn.Recover
		if fr.block == nil {
			// recovered in a function without named results: return zero
			fr.result = zero(fr.fn.Signature.Results())
			if fr.fn.Signature.Results().Len() == 0 {
				fr.result = nil
			}
		}
	}()
	for {
		nonPhis := fr.executePhis()
		for _, instr := range nonPhis {
			if fr.visitInstr(instr) == kReturn {
				return
			}
		}
	}
}

func (fr *frame) executePhis() []ssa.Instruction {
	firstNonPhi := -1
	for i, instr := range fr.block.Instrs {
		if _, ok := instr.(*ssa.Phi); !ok {
			firstNonPhi = i
			break
		}
	}
	nonPhis := fr.block.Instrs[firstNonPhi:]
	if firstNonPhi > 0 {
		phis := fr.block.Instrs[:firstNonPhi]
		predIndex := slices.Index(fr.block.Preds, fr.prevBlock)
		fr.phitemps = fr.phitemps[:0]
		for _, phi := range phis {
			fr.phitemps = append(fr.phitemps, fr.get(phi.(*ssa.Phi).Edges[predIndex]))
		}
		for i, phi := range phis {
			fr.env[phi.(*ssa.Phi)] = fr.phitemps[i]
		}
	}
	return nonPhis
}

func (ex *Exec) doRecover(caller *frame) Value {
	if caller != nil && !caller.panicking && caller.caller != nil && caller.caller.panicking {
		caller.caller.panicking = false
		p := caller.caller.panic
		caller.caller.panic = nil
		switch p := p.(type) {
		case targetPanic:
			return p.v
		case runtimeErr:
			return iface{t: ex.w.prog.runtimeErrType, v: "runtime error: " + p.msg}
		}
		panic(engineError(fmt.Sprintf("recover of %T", p)))
	}
	return iface{}
}

var _ = token.ADD

func (ex *Exec) stackString() string {
	var st []string
	for i := len(ex.callStack) - 1; i >= 0 && len(st) < 8; i-- {
		st = append(st, ex.callStack[i].String())
	}
	return strings.Join(st, " < ")
}
