package main

// Engine self-checks run by setup: the growslice emulation against the native
// runtime, and a solver smoke test for the three back ends.

import (
	"bytes"
	"encoding/json"
	"fmt"
	mbits "math/bits"
	"os"
	"os/exec"
	"path/filepath"
	"strings"
	"time"
)

const growProbe = `package main

import "fmt"

type t16 struct{ a, b int }
type t24 struct{ a, b, c int }
type t32 struct{ a, b, c, d int }
type tp struct{ p *int; n int }

func probe[T any](size, ptr int) {
	for n := 0; n <= 70; n++ {
		for k := 1; k <= 3; k++ {
			s := make([]T, n, n)
			s = append(s, make([]T, k)...)
			fmt.Println(size, ptr, n, k, cap(s))
		}
	}
	for _, n := range []int{255, 256, 257, 511, 512, 1000} {
		s := make([]T, n, n)
		s = append(s, make([]T, 1)...)
		fmt.Println(size, ptr, n, 1, cap(s))
	}
}

func main() {
	probe[byte](1, 0)
	probe[int32](4, 0)
	probe[int](8, 0)
	probe[t16](16, 0)
	probe[t24](24, 0)
	probe[t32](32, 0)
	probe[tp](16, 1)
	probe[string](16, 1)
}
`

func cmdSelftestEngine() int {
	bad := 0
	tmp, err := os.MkdirTemp("", "symgo-self-")
	if err != nil {
		fmt.Fprintln(os.Stderr, err)
		return 2
	}
	defer os.RemoveAll(tmp)
	os.WriteFile(filepath.Join(tmp, "main.go"), []byte(growProbe), 0o644)
	os.WriteFile(filepath.Join(tmp, "go.mod"), []byte("module probe\n\ngo 1.23\n"), 0o644)
	cmd := exec.Command("go", "run", ".")
	cmd.Dir = tmp
	cmd.Env = goEnv()
	out, err := cmd.CombinedOutput()
	if err != nil {
		fmt.Fprintf(os.Stderr, "growslice probe failed: %v\n%s\n", err, out)
		return 2
	}
	n := 0
	for _, line := range strings.Split(strings.TrimSpace(string(out)), "\n") {
		var size, oldn, k, c, ptr int
		if _, err := fmt.Sscan(line, &size, &ptr, &oldn, &k, &c); err != nil {
			continue
		}
		n++
		if got := growCap(oldn, oldn, oldn+k, int64(size), ptr == 0); got != c {
			bad++
			if bad < 10 {
				fmt.Printf("growslice mismatch: elem=%d len=cap=%d add=%d native cap=%d emulated=%d\n", size, oldn, k, c, got)
			}
		}
	}
	fmt.Printf("selftest-engine: growslice emulation checked on %d cases, %d mismatches\n", n, bad)
	// solver smoke test
	for _, s := range []string{"z3", "z3-new", "cvc5"} {
		tc := NewTermCtx()
		sv, err := NewSolver(s, tc, 10*time.Second)
		if err != nil {
			fmt.Printf("selftest-engine: solver %s unavailable: %v\n", s, err)
			if s == "z3" {
				bad++
			}
			continue
		}
		x := tc.Var("x_v64", bvSort(64))
		o := tc.Var("o_i", sortInt)
		pc := []*Term{tc.Lt(tc.BV(64, 5), x, true), tc.Lt(o, tc.IntConst(3), true)}
		r1, m := sv.Check(pc, tc.Lt(x, tc.BV(64, 9), true), []*Term{x, o})
		r2, _ := sv.Check(pc, tc.Lt(x, tc.BV(64, 3), true), nil)
		ok := r1 == Sat && r2 == Unsat && int64(m[x]) > 5 && int64(m[x]) < 9 && int64(m[o]) < 3
		fmt.Printf("selftest-engine: solver %s push/pop/model smoke test ok=%v\n", s, ok)
		if !ok && s == "z3" {
			bad++
		}
		sv.Close()
	}
	// math/bits encodings: evaluate the terms under concrete models and compare
	// with the library; then let the solver look for a value where the encoding
	// leaves the range the library guarantees or disagrees with a bit-level
	// characterisation (tz: bit tz is set and all lower bits are clear).
	{
		tc := NewTermCtx()
		ex := &Exec{tc: tc}
		x := tc.Var("x_v64", bvSort(64))
		tz, lz := ex.tzTerm(x), ex.lzTerm(x)
		vals := []uint64{0, 1, 2, 3, 0x80, 0xff00, 1 << 31, 1 << 32, 1 << 63, ^uint64(0), 0x8000000000000001, 0x00f0000000000000}
		rng := uint64(0x9e3779b97f4a7c15)
		for i := 0; i < 4000; i++ {
			rng ^= rng << 13
			rng ^= rng >> 7
			rng ^= rng << 17
			vals = append(vals, rng, rng>>(i%64), rng<<(i%64))
		}
		nb := 0
		for _, v := range vals {
			m := Model{x: v}
			if got := tc.Eval(tz, m, map[*Term]uint64{}); got != uint64(mbits.TrailingZeros64(v)) {
				nb++
			}
			if got := tc.Eval(lz, m, map[*Term]uint64{}); got != uint64(mbits.LeadingZeros64(v)) {
				nb++
			}
		}
		fmt.Printf("selftest-engine: math/bits encodings evaluated on %d values, %d mismatches\n", len(vals), nb)
		bad += nb
		if sv, err := NewSolver("z3", tc, 60*time.Second); err == nil {
			one := tc.BV(64, 1)
			nz := tc.Not(tc.Eq(x, tc.BV(64, 0)))
			// for x != 0: x>>tz is odd and x has no bit below tz; x<<lz has its top bit set
			okTz := tc.And(tc.Lt(tz, tc.BV(64, 64), false),
				tc.Eq(tc.BAnd(tc.bin(OpLShr, x, tz), one), one),
				tc.Eq(tc.bin(OpShl, tc.bin(OpLShr, x, tz), tz), x))
			okLz := tc.And(tc.Lt(lz, tc.BV(64, 64), false),
				tc.Eq(tc.bin(OpLShr, tc.bin(OpShl, x, lz), tc.BV(64, 63)), one),
				tc.Eq(tc.bin(OpLShr, tc.bin(OpShl, x, lz), lz), x))
			r, _ := sv.Check([]*Term{nz}, tc.Not(tc.And(okTz, okLz)), nil)
			fmt.Printf("selftest-engine: math/bits encodings vs bit-level characterisation for every 64-bit value: %v (unsat expected)\n", r)
			if r != Unsat {
				bad++
			}
			sv.Close()
		}
	}
	if bad > 0 {
		return 2
	}
	return 0
}

func cmdReplay(args []string) int {
	repo, verif := envOr("VERIF_REPO", "/repo"), envOr("VERIF_DIR", "/verif")
	if len(args) < 1 {
		fmt.Fprintln(os.Stderr, "usage: symgo replay <path>")
		return 2
	}
	b, err := os.ReadFile(args[0])
	if err != nil {
		fmt.Fprintln(os.Stderr, err)
		return 2
	}
	var rf replayFile
	if err := json.Unmarshal(b, &rf); err != nil {
		fmt.Fprintln(os.Stderr, err)
		return 2
	}
	spec, err := readSpec(filepath.Join(verif, "checks", rf.Property+".json"))
	if err != nil {
		fmt.Fprintln(os.Stderr, err)
		return 2
	}
	var unit *CheckSpec
	for _, u := range unitsOf(spec) {
		if u.Package == rf.Package {
			unit = u
		}
	}
	if unit == nil {
		fmt.Fprintln(os.Stderr, "no unit for package", rf.Package)
		return 2
	}
	var patches []SourcePatch
	if strings.HasPrefix(rf.Overlay, "neutralised:") {
		ff := loadFindings(verif)
		for _, id := range strings.Split(strings.TrimPrefix(rf.Overlay, "neutralised:"), ",") {
			for _, f := range ff.Open {
				if f.ID == id {
					patches = append(patches, resolveNeutraliser(repo, verif, &f)...)
				}
			}
		}
	}
	if rf.EngineOnly {
		return engineReplay(repo, verif, unit, patches, &rf)
	}
	// entries: every VH_/VT_/VF_ function in the harness files
	var entries []string
	for _, h := range unit.HarnessFiles {
		src, _ := os.ReadFile(filepath.Join(verif, h))
		for _, line := range bytes.Split(src, []byte("\n")) {
			l := string(line)
			for _, pre := range []string{"func VH_", "func VT_", "func VF_"} {
				if strings.HasPrefix(l, pre) {
					name := strings.TrimPrefix(l, "func ")
					name = name[:strings.IndexByte(name, '(')]
					entries = append(entries, name)
				}
			}
		}
	}
	to := 60 * time.Second
	if rf.Expect.Kind == "unwind" {
		to = 10 * time.Second
	}
	nr, err := nativeRun(repo, verif, unit, patches, args[0], entries, to)
	if err != nil {
		fmt.Fprintln(os.Stderr, err)
		return 2
	}
	fmt.Print(tail(nr.Output, 25), "\n")
	ok, why := nr.confirms(rf.Expect)
	if ok {
		fmt.Printf("REPRODUCED property=%s entry=%s overlay=%s: %s\n", rf.Property, rf.Entry, rf.Overlay, why)
		return 1
	}
	fmt.Printf("NOT-REPRODUCED property=%s entry=%s: %s\n", rf.Property, rf.Entry, why)
	return 0
}

// engineReplay re-executes exactly the recorded path in the engine (for
// counterexamples that are schedules or window violations and cannot be
// forced natively).
func engineReplay(repo, verif string, unit *CheckSpec, patches []SourcePatch, rf *replayFile) int {
	ov, err := buildOverlay(repo, verif, unit, patches, false)
	if err != nil {
		fmt.Fprintln(os.Stderr, err)
		return 2
	}
	prog, err := loadProgram(repo, unit, ov)
	if err != nil {
		fmt.Fprintln(os.Stderr, err)
		return 2
	}
	cases := map[string][]int{}
	for k, v := range rf.Cases {
		cases[k] = []int{v}
	}
	jobs, err := expandJobs(prog, []JobSpec{{Entry: rf.Entry, Cases: cases, MaxSteps: 400000000}})
	if err != nil || len(jobs) != 1 {
		fmt.Fprintln(os.Stderr, "cannot rebuild the job:", err)
		return 2
	}
	r := newRun(prog, unit, "z3", 60*time.Second)
	tctx := NewTermCtx()
	sv, err := NewSolver("z3", tctx, 60*time.Second)
	if err != nil {
		fmt.Fprintln(os.Stderr, err)
		return 2
	}
	defer sv.Close()
	w := &Worker{prog: prog, tctx: tctx, solver: sv, run: r}
	res := w.runPath(&workItem{job: jobs[0], prefix: rf.Log})
	if res.kind == outViolation && res.viol != nil {
		fmt.Printf("REPRODUCED (engine replay) property=%s entry=%s: %s: %s [%s]\n", rf.Property, rf.Entry, res.viol.Kind, res.viol.Label, res.viol.Detail)
		return 1
	}
	fmt.Printf("NOT-REPRODUCED (engine replay) property=%s entry=%s: outcome %s %s\n", rf.Property, rf.Entry, res.kind, firstLine(res.msg))
	return 0
}
