package main

// Path exploration: forking DFS with re-execution. A path is identified by its
// decision log; alternatives discovered on the way are pushed on the work list
// as decision prefixes and re-executed from the start.

import (
	"fmt"
	"go/types"
	"os"
	"runtime/debug"
	"strings"

	"golang.org/x/tools/go/ssa"
)

var debugForks = os.Getenv("SYMGO_DEBUG_FORKS") != ""

type decision struct {
	K byte  `json:"k"` // 'b' branch, 'c' choice, 'v' picked value
	V int64 `json:"v"` // branch: 0/1; choice: index; value: the value
	F bool  `json:"f,omitempty"` // forced (only one side feasible) — never flipped
}

type outcomeKind int

const (
	outOK outcomeKind = iota
	outViolation
	outPruned
	outUnsupported
	outBudget
	outInconclusive
	outEngineError
)

func (o outcomeKind) String() string {
	return [...]string{"ok", "violation", "pruned", "unsupported", "budget", "inconclusive", "engine-error"}[o]
}

// abortPath ends the current path; it is never visible to the target's recover.
type abortPath struct {
	kind outcomeKind
	msg  string
}

func unsupported(msg string) abortPath { return abortPath{outUnsupported, msg} }
func engineError(msg string) abortPath { return abortPath{outEngineError, msg} }

// target-level panics
type targetPanic struct{ v Value }
type runtimeErr struct{ msg string }

type pendingAssert struct {
	c     *Term
	label string
}

type replayValue struct {
	Name string
	Kind string // int, ord, byte, uint64, bool
	T    *Term
}

type violation struct {
	Label     string
	Kind      string // assert | panic | unwind | unsafe | ...
	Detail    string
	Model     Model
	Vals      []replayValue
	Decisions []decision
	Job       *Job
	Out       []string
	Stack     string
	MapOrder  int // number of map-iteration-order choices on the path
	Threads   bool // the path ran interpreted threads (schedule cannot be forced natively)
}

type Exec struct {
	w         *Worker
	job       *Job
	tc        *TermCtx
	prefix    []decision
	decisions []decision
	pc        []*Term
	lits      map[*Term]bool
	fixed     Model // variables pinned to a constant by the path condition
	model     Model
	modelOK   bool
	vars      []*Term
	vals      []replayValue
	steps     int
	depth     int
	globals   map[*ssa.Global]*Value
	inited    map[*ssa.Package]bool
	cover     map[string]bool
	outLog    []string
	nvar      int
	seed      map[string]uint64
	// per-path counters
	nAssert, nDischarged, nConcrete int
	nForks                          int
	viol                            *violation
	assumes                         map[string]bool
	intrinsicsUsed                  map[string]bool
	funcs                           map[*ssa.Function]bool
	pool                            map[*Value][]Value // sync.Pool contents, keyed by pool address
	mutexHeld                       map[*Value]bool
	rlockHeld                       map[*Value]int
	callStack                       []*ssa.Function
	inPanics                        int
	merging                         int
	pendingUnsafe                   string
	mapChoices                      int
	lastFn                          *ssa.Function
	usedThreads                     bool
	panicStack                      string
	pending                         []pendingAssert
	noMerge                         bool
	threads                         *threadState
}

func (ex *Exec) inPrefix() bool { return len(ex.decisions) < len(ex.prefix) }

func (ex *Exec) known(c *Term) (bool, bool) {
	if c.IsConst() {
		return c.Val == 1, true
	}
	if v, ok := ex.lits[c]; ok {
		return v, true
	}
	if len(ex.fixed) > 0 {
		if vs, many := c.Vars(); !many {
			all := true
			for _, v := range vs {
				if _, ok := ex.fixed[v]; !ok {
					all = false
					break
				}
			}
			if all {
				return ex.tc.Eval(c, ex.fixed, map[*Term]uint64{}) == 1, true
			}
		}
	}
	switch c.Op {
	case OpNot:
		if v, ok := ex.known(c.Args[0]); ok {
			return !v, true
		}
	case OpAnd:
		all := true
		for _, a := range c.Args {
			v, ok := ex.known(a)
			if ok && !v {
				return false, true
			}
			if !ok {
				all = false
			}
		}
		if all {
			return true, true
		}
	case OpOr:
		all := true
		for _, a := range c.Args {
			v, ok := ex.known(a)
			if ok && v {
				return true, true
			}
			if !ok {
				all = false
			}
		}
		if all {
			return false, true
		}
	}
	return false, false
}

func (ex *Exec) learn(c *Term, val bool) {
	if c.IsConst() {
		return
	}
	if c.Op == OpNot {
		ex.learn(c.Args[0], !val)
		return
	}
	ex.lits[c] = val
	if c.Op == OpVar {
		ex.fixed[c] = b2u(val)
	}
	if c.Op == OpEq && val {
		if c.Args[0].Op == OpVar && c.Args[1].IsConst() {
			ex.fixed[c.Args[0]] = c.Args[1].Val
		} else if c.Args[1].Op == OpVar && c.Args[0].IsConst() {
			ex.fixed[c.Args[1]] = c.Args[0].Val
		}
	}
	if c.Op == OpAnd && val {
		for _, a := range c.Args {
			ex.learn(a, true)
		}
	}
	if c.Op == OpOr && !val {
		for _, a := range c.Args {
			ex.learn(a, false)
		}
	}
}

// addPC records that cond has truth value val on this path.
func (ex *Exec) addPC(cond *Term, val bool, implied bool) {
	l := cond
	if !val {
		l = ex.tc.Not(cond)
	}
	ex.learn(cond, val)
	if implied {
		return
	}
	ex.pc = append(ex.pc, l)
	if ex.modelOK {
		if ex.tc.Eval(l, ex.model, map[*Term]uint64{}) != 1 {
			ex.modelOK = false
		}
	}
}

func (ex *Exec) check(extra *Term) (SatResult, Model) {
	r, m := ex.w.solver.Check(ex.pc, extra, ex.vars)
	if r == Unknown {
		panic(abortPath{outInconclusive, "solver answered unknown/timeout"})
	}
	return r, m
}

func (ex *Exec) nextPrefix(kind byte) decision {
	d := ex.prefix[len(ex.decisions)]
	if d.K != kind {
		panic(engineError(fmt.Sprintf("re-execution diverged: expected decision kind %c, log has %c at %d", kind, d.K, len(ex.decisions))))
	}
	ex.decisions = append(ex.decisions, d)
	return d
}

func (ex *Exec) spawn(alt decision, m Model) {
	p := make([]decision, len(ex.decisions)+1)
	copy(p, ex.decisions)
	p[len(ex.decisions)] = alt
	ex.nForks++
	it := &workItem{job: ex.job, prefix: p}
	if m != nil {
		it.seed = make(map[string]uint64, len(m))
		for t, v := range m {
			it.seed[t.Name] = v
		}
	}
	ex.w.push(it)
}

// branch decides a symbolic condition, forking when both sides are feasible.
func (ex *Exec) branch(cond *Term) bool {
	if v, ok := ex.known(cond); ok {
		return v
	}
	if ex.merging > 0 {
		panic(mergeBail{})
	}
	ex.flush()
	if ex.inPrefix() {
		d := ex.nextPrefix('b')
		ex.addPC(cond, d.V == 1, d.F)
		return d.V == 1
	}
	var tOK, fOK, tKnown, fKnown bool
	var tModel, fModel Model
	if ex.modelOK {
		if ex.tc.Eval(cond, ex.model, map[*Term]uint64{}) == 1 {
			tOK, tKnown, tModel = true, true, ex.model
		} else {
			fOK, fKnown = true, true
		}
	}
	if !tKnown {
		r, m := ex.check(cond)
		tOK = r == Sat
		tModel = m
	}
	if !fKnown {
		r, m := ex.check(ex.tc.Not(cond))
		fOK = r == Sat
		fModel = m
		if fOK && !tOK {
			tModel = m
		}
	} else if !tOK {
		tModel = ex.model
	} else {
		fModel = ex.model
	}
	if debugForks {
		top := "?"
		if len(ex.callStack) > 0 {
			top = ex.callStack[len(ex.callStack)-1].Name()
		}
		fmt.Fprintf(os.Stderr, "FORK d=%d in %s t=%v f=%v cond=%s\n", len(ex.decisions), top, tOK, fOK, cond)
	}
	switch {
	case tOK && fOK:
		ex.spawn(decision{K: 'b', V: 0}, fModel)
		ex.decisions = append(ex.decisions, decision{K: 'b', V: 1})
		ex.model, ex.modelOK = tModel, tModel != nil
		ex.addPC(cond, true, false)
		return true
	case tOK:
		ex.decisions = append(ex.decisions, decision{K: 'b', V: 1, F: true})
		ex.model, ex.modelOK = tModel, tModel != nil
		ex.addPC(cond, true, true)
		return true
	case fOK:
		ex.decisions = append(ex.decisions, decision{K: 'b', V: 0, F: true})
		ex.model, ex.modelOK = tModel, tModel != nil
		ex.addPC(cond, false, true)
		return false
	}
	panic(abortPath{outPruned, "path condition became infeasible"})
}

// choice is a concrete n-way fork.
func (ex *Exec) choice(n int) int {
	if n <= 0 {
		panic(engineError("choice(0)"))
	}
	if n == 1 {
		return 0
	}
	if ex.merging > 0 {
		panic(mergeBail{})
	}
	ex.flush()
	if ex.inPrefix() {
		return int(ex.nextPrefix('c').V)
	}
	for i := n - 1; i >= 1; i-- {
		ex.spawn(decision{K: 'c', V: int64(i)}, nil)
	}
	ex.decisions = append(ex.decisions, decision{K: 'c', V: 0})
	return 0
}

func (ex *Exec) ensureModel() {
	if ex.modelOK {
		return
	}
	if len(ex.pending) > 0 {
		ex.flush()
		if ex.modelOK {
			return
		}
	}
	r, m := ex.check(nil)
	if r != Sat {
		panic(abortPath{outPruned, "path condition infeasible"})
	}
	ex.model, ex.modelOK = m, true
}

// concretise returns a concrete value for t, forking over every feasible one.
func (ex *Exec) concretise(t *Term) uint64 { return ex.concretiseUpTo(t, 0) }

// concretiseUpTo is concretise with a bound on the enumeration: after max
// values have been tried the remaining ones are cut off (the path is pruned with
// a "bound:" note that ends up in the evidence). Used where an integer is only
// rendered as text, e.g. into a panic message, and may range over the whole type.
func (ex *Exec) concretiseUpTo(t *Term, max int) uint64 {
	tries := 0
	for {
		if max > 0 && tries >= max {
			panic(abortPath{outPruned, fmt.Sprintf("bound: a symbolic integer rendered as text was explored for %d values only", max)})
		}
		tries++
		if t.IsConst() {
			return t.Val
		}
		var v uint64
		if ex.inPrefix() {
			v = uint64(ex.nextPrefix('v').V)
		} else {
			ex.ensureModel()
			v = ex.tc.Eval(t, ex.model, map[*Term]uint64{})
			ex.decisions = append(ex.decisions, decision{K: 'v', V: int64(v)})
		}
		var k *Term
		switch t.Sort.K {
		case SBV:
			k = ex.tc.BV(int(t.Sort.W), v)
		case SInt:
			k = ex.tc.IntConst(int64(v))
		default:
			k = ex.tc.Bool(v == 1)
		}
		if ex.branch(ex.tc.Eq(t, k)) {
			return v
		}
	}
}

// ---------- harness primitives ----------

func (ex *Exec) newVar(name, kind string, s Sort) *Term {
	ex.nvar++
	clean := strings.Map(func(r rune) rune {
		if r >= 'a' && r <= 'z' || r >= 'A' && r <= 'Z' || r >= '0' && r <= '9' || r == '_' {
			return r
		}
		return '_'
	}, name)
	sfx := "i"
	switch s.K {
	case SBool:
		sfx = "b"
	case SBV:
		sfx = fmt.Sprintf("v%d", s.W)
	}
	t := ex.tc.Var(fmt.Sprintf("n%d_%s_%s", ex.nvar, clean, sfx), s)
	ex.vars = append(ex.vars, t)
	if ex.seed != nil {
		if v, ok := ex.seed[t.Name]; ok {
			ex.model[t] = v
		}
	}
	ex.vals = append(ex.vals, replayValue{Name: name, Kind: kind, T: t})
	return t
}

func (ex *Exec) assume(c Value, label string) {
	ex.flush()
	switch c := c.(type) {
	case bool:
		if !c {
			panic(abortPath{outPruned, "assume false"})
		}
	case *Term:
		if v, ok := ex.known(c); ok {
			if !v {
				panic(abortPath{outPruned, "assume contradicts path"})
			}
			return
		}
		if ex.inPrefix() {
			ex.addPC(c, true, false)
			return
		}
		if ex.modelOK && ex.tc.Eval(c, ex.model, map[*Term]uint64{}) == 1 {
			ex.addPC(c, true, false)
			return
		}
		r, m := ex.check(c)
		if r != Sat {
			panic(abortPath{outPruned, "assume infeasible"})
		}
		ex.model, ex.modelOK = m, true
		ex.addPC(c, true, false)
	default:
		panic(engineError(fmt.Sprintf("assume on %T", c)))
	}
}

func (ex *Exec) fail(kind, label, detail string) {
	if ex.merging > 0 {
		panic(mergeBail{})
	}
	if ex.viol == nil {
		if !ex.modelOK && !ex.inPrefix() {
			func() {
				defer func() { recover() }()
				ex.ensureModel()
			}()
		}
		v := &violation{Label: label, Kind: kind, Detail: detail, Model: ex.model,
			Vals: append([]replayValue(nil), ex.vals...), Decisions: append([]decision(nil), ex.decisions...),
			Job: ex.job, Out: append([]string(nil), ex.outLog...), MapOrder: ex.mapChoices, Threads: ex.usedThreads}
		var st []string
		for _, f := range ex.callStack {
			st = append(st, f.String())
		}
		v.Stack = strings.Join(st, " > ")
		ex.viol = v
	}
	panic(abortPath{outViolation, label})
}

func (ex *Exec) assert(c Value, label string) {
	switch c := c.(type) {
	case bool:
		if ex.inPrefix() {
			return
		}
		ex.nAssert++
		if !c {
			ex.fail("assert", label, "assertion is false on this path")
		}
		ex.nConcrete++
		ex.nDischarged++
	case *Term:
		if v, ok := ex.known(c); ok {
			if ex.inPrefix() {
				return
			}
			ex.nAssert++
			if !v {
				ex.fail("assert", label, "assertion contradicts path condition")
			}
			ex.nDischarged++
			return
		}
		if ex.inPrefix() {
			ex.learn(c, true)
			return
		}
		ex.nAssert++
		ex.pending = append(ex.pending, pendingAssert{c, label})
		ex.learn(c, true)
	default:
		panic(engineError(fmt.Sprintf("assert on %T", c)))
	}
}

// flush decides the assertions collected since the last fork point with one
// query: PC ∧ ¬(c1 ∧ … ∧ ck). It runs before anything that could fork, assume
// or end the path, so no assertion is ever checked under a stronger path
// condition than the one it was made under, except for implied literals.
func (ex *Exec) flush() {
	if len(ex.pending) == 0 {
		return
	}
	pend := ex.pending
	ex.pending = nil
	cs := make([]*Term, len(pend))
	for i, p := range pend {
		cs[i] = p.c
	}
	r, m := ex.check(ex.tc.Not(ex.tc.And(cs...)))
	if r == Sat {
		ex.model, ex.modelOK = m, true
		memo := map[*Term]uint64{}
		for _, p := range pend {
			if ex.tc.Eval(p.c, m, memo) != 1 {
				ex.fail("assert", p.label, "solver found a counterexample")
			}
		}
		ex.fail("assert", pend[0].label, "solver found a counterexample (assertion group)")
	}
	ex.nDischarged += len(pend)
}

// ---------- running one path ----------

type pathResult struct {
	kind      outcomeKind
	msg       string
	viol      *violation
	decisions []decision
	ex        *Exec
}

func (w *Worker) runPath(it *workItem) (res pathResult) {
	ex := &Exec{w: w, job: it.job, tc: w.tctx, prefix: it.prefix,
		lits: map[*Term]bool{}, fixed: Model{}, globals: map[*ssa.Global]*Value{}, inited: map[*ssa.Package]bool{},
		cover: map[string]bool{}, assumes: map[string]bool{}, intrinsicsUsed: map[string]bool{},
		funcs: map[*ssa.Function]bool{}, pool: map[*Value][]Value{}, mutexHeld: map[*Value]bool{}, rlockHeld: map[*Value]int{}}
	if it.seed != nil {
		ex.seed, ex.model, ex.modelOK = it.seed, Model{}, true
	}
	res.ex = ex
	defer func() {
		res.decisions = ex.decisions
		r := recover()
		if r == nil {
			return
		}
		switch p := r.(type) {
		case abortPath:
			res.kind, res.msg = p.kind, p.msg
			if p.kind == outUnsupported {
				var st []string
				for i := len(ex.callStack) - 1; i >= 0 && len(st) < 6; i-- {
					st = append(st, ex.callStack[i].Name())
				}
				res.msg += " [in " + strings.Join(st, " < ") + "]"
			}
			if p.kind == outViolation {
				res.viol = ex.viol
			}
			if p.kind == outEngineError {
				res.msg += "\n" + string(debug.Stack())
			}
			if p.kind == outBudget && !ex.inPrefix() {
				// candidate non-termination: reported only if the native replay hangs too
				func() {
					defer func() { recover() }()
					ex.fail("unwind", "step budget exhausted (possible non-termination)", p.msg)
				}()
				res.kind, res.viol = outViolation, ex.viol
			}
		case targetPanic:
			// unrecovered panic in the target: an implicit-assertion violation
			res = ex.panicViolation(panicMessage(ex, p.v))
		case runtimeErr:
			res = ex.panicViolation("runtime error: " + p.msg)
			if res.viol != nil && ex.panicStack != "" {
				res.viol.Stack = ex.panicStack
			}
		default:
			res.kind = outEngineError
			res.msg = fmt.Sprintf("interpreter crash: %v\n%s", r, debug.Stack())
		}
	}()
	fn := it.job.entry
	ex.callFunction(nil, fn, nil)
	ex.flush()
	if ex.pendingUnsafe != "" {
		ex.fail("unsafe", "unsafe access outside the slice", ex.pendingUnsafe)
	}
	if ex.inPrefix() {
		panic(engineError("re-execution ended before consuming its decision prefix"))
	}
	res.kind = outOK
	return
}

func (ex *Exec) panicViolation(msg string) (res pathResult) {
	res.ex = ex
	res.decisions = ex.decisions
	if ex.inPrefix() {
		res.kind = outEngineError
		res.msg = "panic while replaying a prefix: " + msg
		return
	}
	func() {
		defer func() { recover() }()
		ex.fail("panic", "unexpected panic: "+msg, msg)
	}()
	res.kind = outViolation
	res.viol = ex.viol
	res.msg = msg
	return
}

func panicMessage(ex *Exec, v Value) string {
	switch x := v.(type) {
	case iface:
		if x.t == nil {
			return "panic(nil)"
		}
		if s, ok := x.v.(string); ok {
			return s
		}
		// error or Stringer: try Error()
		if m := ex.lookupMethodByName(x.t, "Error"); m != nil {
			var out Value
			func() {
				defer func() {
					if r := recover(); r != nil {
						if ap, ok := r.(abortPath); ok {
							panic(ap)
						}
						out = "<panic in Error()>"
					}
				}()
				out = ex.callFunction(nil, m, []Value{x.v})
			}()
			if s, ok := out.(string); ok {
				return s
			}
			return describe(out)
		}
		return describe(x.v)
	case string:
		return x
	}
	return describe(v)
}

func (ex *Exec) lookupMethodByName(t types.Type, name string) *ssa.Function {
	ms := ex.w.prog.ssa.MethodSets.MethodSet(t)
	for i := 0; i < ms.Len(); i++ {
		sel := ms.At(i)
		if sel.Obj().Name() == name {
			return ex.w.prog.ssa.MethodValue(sel)
		}
	}
	return nil
}
