package main

import (
	"flag"
	"fmt"
	"os"
	"path/filepath"
	"runtime"
	"runtime/debug"
	"runtime/pprof"
	"sort"
	"time"
)

func main() {
	debug.SetGCPercent(400) // the term tables are long-lived; trade memory for less GC work
	if pf := os.Getenv("SYMGO_CPUPROFILE"); pf != "" {
		f, err := os.Create(pf)
		if err == nil {
			pprof.StartCPUProfile(f)
			defer pprof.StopCPUProfile()
		}
	}
	if len(os.Args) < 2 {
		fmt.Fprintln(os.Stderr, "usage: symgo run|check|replay|selftest ...")
		os.Exit(2)
	}
	switch os.Args[1] {
	case "run":
		cmdRun(os.Args[2:])
	case "check":
		cmdCheck(os.Args[2:])
	case "selftest-engine":
		os.Exit(cmdSelftestEngine())
	case "replay":
		os.Exit(cmdReplay(os.Args[2:]))
	default:
		fmt.Fprintln(os.Stderr, "unknown command", os.Args[1])
		os.Exit(2)
	}
}

// cmdRun: explore one spec/tier and print a summary (development aid).
func cmdRun(args []string) {
	fs := flag.NewFlagSet("run", flag.ExitOnError)
	specPath := fs.String("spec", "", "check spec json")
	tier := fs.String("tier", "quick", "quick|thorough")
	repo := fs.String("repo", "/repo", "repository root")
	verif := fs.String("verif", "/verif", "verif root")
	workers := fs.Int("j", runtime.NumCPU(), "workers")
	solver := fs.String("solver", "z3", "z3|z3-new|cvc5")
	fs.Parse(args)
	spec, err := readSpec(*specPath)
	if err != nil {
		fmt.Fprintln(os.Stderr, err)
		os.Exit(2)
	}
	t0 := time.Now()
	ov, err := buildOverlay(*repo, *verif, spec, nil, false)
	if err != nil {
		fmt.Fprintln(os.Stderr, err)
		os.Exit(2)
	}
	prog, err := loadProgram(*repo, spec, ov)
	if err != nil {
		fmt.Fprintln(os.Stderr, err)
		os.Exit(2)
	}
	fmt.Printf("loaded in %.1fs\n", time.Since(t0).Seconds())
	jobs, err := expandJobs(prog, spec.Jobs[*tier])
	if err != nil {
		fmt.Fprintln(os.Stderr, err)
		os.Exit(2)
	}
	r := newRun(prog, spec, *solver, 20*time.Second)
	t1 := time.Now()
	if err := r.execute(jobs, *workers); err != nil {
		fmt.Fprintln(os.Stderr, err)
		os.Exit(2)
	}
	fmt.Printf("explored in %.1fs: paths=%v transitions=%d asserts=%d discharged=%d concrete=%d queries=%d solver=%.1fs\n",
		time.Since(t1).Seconds(), r.paths, r.transitions, r.nAssert, r.nDischarged, r.nConcrete, r.queries, r.solverTime.Seconds())
	var ms []string
	for m, n := range r.msgs {
		ms = append(ms, fmt.Sprintf("  %dx %s", n, m))
	}
	sort.Strings(ms)
	for _, m := range ms {
		fmt.Println(m)
	}
	fmt.Println("cover:", r.cover)
	for _, v := range r.violations {
		fmt.Printf("VIOLATION %s [%s] %s job=%s\n  stack: %s\n", v.Kind, v.Label, v.Detail, v.Job, v.Stack)
		for _, rv := range v.Vals {
			val := uint64(0)
			if v.Model != nil {
				val = r.evalForReport(rv.T, v.Model)
			}
			fmt.Printf("    %s(%s) = %d\n", rv.Name, rv.Kind, int64(val))
		}
	}
	_ = filepath.Join
}

func (r *Run) evalForReport(t *Term, m Model) uint64 {
	if t.IsConst() {
		return t.Val
	}
	return m[t]
}
