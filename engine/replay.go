package main

// Replay files and native confirmation: the harness source is compiled
// natively (go test -overlay) with the native shim, fed the solver's values,
// and must fail the same way before a violation is reported.

import (
	"bytes"
	"context"
	"crypto/sha1"
	"encoding/json"
	"fmt"
	"os"
	"os/exec"
	"path/filepath"
	"sort"
	"strconv"
	"strings"
	"time"
)

type replayVal struct {
	Name string `json:"name"`
	Kind string `json:"kind"`
	V    string `json:"v"`
}

type replayExpect struct {
	Label string `json:"label,omitempty"`
	Panic string `json:"panic,omitempty"`
	HangS int    `json:"hang_s,omitempty"`
	Kind  string `json:"kind"`
}

type replayFile struct {
	Property  string         `json:"property"`
	Package   string         `json:"package"`
	Entry     string         `json:"entry"`
	Entries   []string       `json:"entries,omitempty"`
	Cases     map[string]int `json:"cases"`
	Overlay   string         `json:"overlay"`
	Values    []replayVal    `json:"values"`
	Decisions string         `json:"decisions,omitempty"`
	Log       []decision     `json:"decision_log,omitempty"` // exact decisions, for the engine's deterministic replay
	EngineOnly bool          `json:"engine_only,omitempty"`
	Expect    replayExpect   `json:"expect"`
	Detail    string         `json:"detail,omitempty"`
	Stack     string         `json:"stack,omitempty"`
	TreeRev   string         `json:"tree_rev,omitempty"`
}

func violationToReplay(prop string, unit *CheckSpec, v *violation, overlayTag string) *replayFile {
	rf := &replayFile{Property: prop, Package: unit.Package, Entry: v.Job.name, Cases: v.Job.cases, Overlay: overlayTag,
		Decisions: decString(v.Decisions), Log: v.Decisions, Detail: v.Detail, Stack: v.Stack,
		EngineOnly: v.Threads || v.Kind == "unsafe" || v.Kind == "race" || v.Kind == "pool"}
	for _, rv := range v.Vals {
		var val uint64
		if rv.T.IsConst() {
			val = rv.T.Val
		} else if v.Model != nil {
			val = v.Model[rv.T]
		}
		s := strconv.FormatInt(int64(val), 10)
		switch rv.Kind {
		case "uint64":
			s = strconv.FormatUint(val, 10)
		case "byte":
			s = strconv.FormatUint(val&0xff, 10)
		case "bool":
			s = strconv.FormatUint(val&1, 10)
		}
		rf.Values = append(rf.Values, replayVal{Name: rv.Name, Kind: rv.Kind, V: s})
	}
	rf.Expect.Kind = v.Kind
	switch v.Kind {
	case "assert":
		rf.Expect.Label = v.Label
	case "panic":
		rf.Expect.Panic = v.Detail
		rf.Expect.Label = v.Label
	case "unwind":
		rf.Expect.HangS = 10
		rf.Expect.Label = v.Label
	default:
		rf.Expect.Label = v.Label
	}
	return rf
}

func writeReplay(verif string, rf *replayFile) (string, error) {
	b, err := json.MarshalIndent(rf, "", " ")
	if err != nil {
		return "", err
	}
	h := sha1.Sum(b)
	dir := filepath.Join(verif, "replays", rf.Property)
	if err := os.MkdirAll(dir, 0o755); err != nil {
		return "", err
	}
	p := filepath.Join(dir, fmt.Sprintf("%s-%x.json", rf.Entry, h[:5]))
	return p, os.WriteFile(p, b, 0o644)
}

type nativeResult struct {
	Violation string // label of REPLAY-VIOLATION
	Panic     string
	Hang      bool
	OK        bool
	Diverged  bool
	AssumeBad bool
	BuildFail bool
	Output    string
	Traces    map[string][]string // entry -> VOUT lines
}

// nativeRun compiles the unit's harness natively against the current tree
// (plus patches) and runs the replay file.
func nativeRun(repo, verif string, unit *CheckSpec, patches []SourcePatch, replayPath string, entries []string, timeout time.Duration) (*nativeResult, error) {
	tmp, err := os.MkdirTemp("", "symgo-replay-")
	if err != nil {
		return nil, err
	}
	defer os.RemoveAll(tmp)
	ov, err := buildOverlay(repo, verif, unit, patches, true)
	if err != nil {
		return nil, err
	}
	pkgName := unit.PackageName
	if pkgName == "" {
		pkgName = filepath.Base(unit.Package)
	}
	sort.Strings(entries)
	var tb strings.Builder
	fmt.Fprintf(&tb, "package %s\n\nimport (\n\t\"fmt\"\n\t\"testing\"\n)\n\n", pkgName)
	tb.WriteString("var vEntries = map[string]func(){\n")
	for _, e := range entries {
		fmt.Fprintf(&tb, "\t%q: %s,\n", e, e)
	}
	tb.WriteString("}\n\n")
	tb.WriteString(`func vRunEntry(t *testing.T, name string) {
	defer func() {
		if r := recover(); r != nil {
			if v, ok := r.(vViolation); ok {
				t.Errorf("violation: %s", v.label)
				return
			}
			fmt.Printf("REPLAY-PANIC %v\n", r)
			t.Errorf("panic: %v", r)
		}
	}()
	f := vEntries[name]
	if f == nil {
		fmt.Printf("REPLAY-NOENTRY %s\n", name)
		t.Fatalf("no entry %s", name)
	}
	vReplayPos = 0
	fmt.Printf("REPLAY-BEGIN %s\n", name)
	f()
	fmt.Printf("REPLAY-OK %s\n", name)
}

func TestVerifReplay(t *testing.T) {
	vLoad()
	if len(vReplay.Entries) > 0 {
		for _, e := range vReplay.Entries {
			vRunEntry(t, e)
		}
		return
	}
	vRunEntry(t, vReplay.Entry)
}
`)
	ov[filepath.Join(repo, unit.Package, "zz_verif_replay_test.go")] = []byte(tb.String())
	// the native shim's replay struct needs Entries
	shimPath := filepath.Join(repo, unit.Package, shimFileName)
	ov[shimPath] = bytes.Replace(ov[shimPath], []byte("\tEntry  string         `json:\"entry\"`\n"),
		[]byte("\tEntry  string         `json:\"entry\"`\n\tEntries []string `json:\"entries\"`\n"), 1)
	repl := map[string]string{}
	i := 0
	for virt, content := range ov {
		real := filepath.Join(tmp, fmt.Sprintf("f%d_%s", i, filepath.Base(virt)))
		i++
		if err := os.WriteFile(real, content, 0o644); err != nil {
			return nil, err
		}
		repl[virt] = real
	}
	ob, _ := json.Marshal(map[string]interface{}{"Replace": repl})
	ovPath := filepath.Join(tmp, "overlay.json")
	if err := os.WriteFile(ovPath, ob, 0o644); err != nil {
		return nil, err
	}
	ctx, cancel := context.WithTimeout(context.Background(), timeout+120*time.Second)
	defer cancel()
	cmd := exec.CommandContext(ctx, "go", "test", "-vet=off", "-count=1", "-run", "^TestVerifReplay$", "-v",
		"-timeout", fmt.Sprintf("%ds", int(timeout.Seconds())), "-overlay", ovPath, "./"+unit.Package)
	cmd.Dir = repo
	cmd.Env = append(goEnv(), "VERIF_REPLAY="+replayPath, "GOCACHE="+goCacheDir())
	var out bytes.Buffer
	cmd.Stdout = &out
	cmd.Stderr = &out
	runErr := cmd.Run()
	res := &nativeResult{Output: out.String(), Traces: map[string][]string{}}
	cur := ""
	for _, line := range strings.Split(res.Output, "\n") {
		switch {
		case strings.HasPrefix(line, "REPLAY-BEGIN "):
			cur = strings.TrimPrefix(line, "REPLAY-BEGIN ")
		case strings.HasPrefix(line, "REPLAY-VIOLATION "):
			if res.Violation == "" {
				res.Violation = strings.TrimPrefix(line, "REPLAY-VIOLATION ")
			}
		case strings.HasPrefix(line, "REPLAY-PANIC "):
			if res.Panic == "" {
				res.Panic = strings.TrimPrefix(line, "REPLAY-PANIC ")
			}
		case strings.HasPrefix(line, "REPLAY-DIVERGED"):
			res.Diverged = true
		case strings.HasPrefix(line, "REPLAY-ASSUME-FAILED"):
			res.AssumeBad = true
		case strings.HasPrefix(line, "VOUT "):
			res.Traces[cur] = append(res.Traces[cur], strings.TrimPrefix(line, "VOUT "))
		case strings.Contains(line, "panic: test timed out"):
			res.Hang = true
		case strings.Contains(line, "[build failed]") || strings.Contains(line, "[setup failed]"):
			res.BuildFail = true
		case strings.HasPrefix(line, "fatal error:") || strings.HasPrefix(line, "panic:"):
			if res.Panic == "" && !res.Hang && !strings.Contains(line, "test timed out") {
				res.Panic = line
			}
		}
	}
	if runErr == nil && res.Violation == "" && res.Panic == "" {
		res.OK = true
	}
	return res, nil
}

func goCacheDir() string {
	if d := os.Getenv("GOCACHE"); d != "" {
		return d
	}
	home, _ := os.UserHomeDir()
	return filepath.Join(home, ".cache", "go-build")
}

// confirms reports whether the native result reproduces the expectation.
func (n *nativeResult) confirms(e replayExpect) (bool, string) {
	switch e.Kind {
	case "assert":
		if n.Violation == e.Label {
			return true, "native run failed the same assertion"
		}
		if n.Violation != "" {
			return true, "native run failed assertion " + strconv.Quote(n.Violation) + " (engine: " + strconv.Quote(e.Label) + ")"
		}
		if n.Panic != "" {
			return true, "native run panicked: " + n.Panic
		}
	case "panic", "deadlock":
		if n.Panic != "" {
			return true, "native run panicked: " + n.Panic
		}
		if n.Violation != "" {
			return true, "native run failed assertion " + strconv.Quote(n.Violation)
		}
		if n.Hang && e.Kind == "deadlock" {
			return true, "native run hung"
		}
	case "unwind":
		if n.Hang {
			return true, "native run did not terminate within the timeout"
		}
	}
	return false, "native run did not reproduce: ok=" + strconv.FormatBool(n.OK) + " diverged=" + strconv.FormatBool(n.Diverged) + " assume_failed=" + strconv.FormatBool(n.AssumeBad) + " build_failed=" + strconv.FormatBool(n.BuildFail)
}
