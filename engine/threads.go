package main

// Interpreted threads for C09 (vPar): sequentialised exploration with schedule
// points at lock acquisitions (which runnable thread proceeds is a forked
// decision) and a vector-clock happens-before race detector over every heap
// cell and map. Data-race freedom is what makes lock-granularity scheduling
// exhaustive for the behaviours of the program (DRF => sequentially consistent,
// and code between synchronisation points that touches no shared location
// commutes with the other threads).

import (
	"fmt"

	"golang.org/x/tools/go/ssa"
)

const (
	tNew = iota
	tWantAtomic
	tWantLock
	tRunning
	tDone
)

type thread struct {
	id       int
	fn       Value
	state    int
	want     *Value
	wantRead bool
	resume   chan struct{}
	vc       []int
	// per-thread interpreter bookkeeping swapped in while it runs
	depth     int
	callStack []*ssa.Function
}

type lockState struct {
	holder  int // -1 free
	readers map[int]bool
	vcW     []int
	vcR     []int
}

type cellMeta struct {
	wTid, wClk int
	reads      map[int]int
}

type yieldMsg struct {
	pan interface{}
}

type threadKilled struct{}

type threadState struct {
	threads []*thread
	cur     *thread
	yield   chan yieldMsg
	kill    chan struct{}
	locks   map[*Value]*lockState
	cells   map[*Value]*cellMeta
	maps    map[*Map]*cellMeta
	atomics map[*Value][]int
	step    int
}

func (ts *threadState) lockOf(p *Value) *lockState {
	l := ts.locks[p]
	if l == nil {
		l = &lockState{holder: -1, readers: map[int]bool{}, vcW: make([]int, len(ts.threads)), vcR: make([]int, len(ts.threads))}
		ts.locks[p] = l
	}
	return l
}

func joinVC(a, b []int) {
	for i := range a {
		if b[i] > a[i] {
			a[i] = b[i]
		}
	}
}

func (ts *threadState) available(t *thread) bool {
	l := ts.lockOf(t.want)
	if t.wantRead {
		return l.holder == -1
	}
	return l.holder == -1 && len(l.readers) == 0
}

// runThreads implements vPar.
func (ex *Exec) runThreads(caller *frame, fs []Value) {
	if ex.threads != nil {
		panic(unsupported("nested vPar"))
	}
	ex.flush()
	ts := &threadState{yield: make(chan yieldMsg), kill: make(chan struct{}), locks: map[*Value]*lockState{},
		cells: map[*Value]*cellMeta{}, maps: map[*Map]*cellMeta{}, atomics: map[*Value][]int{}}
	for i, f := range fs {
		t := &thread{id: i, fn: f, resume: make(chan struct{}), vc: make([]int, len(fs))}
		t.vc[i] = 1
		ts.threads = append(ts.threads, t)
	}
	ex.threads = ts
	ex.usedThreads = true
	mainDepth, mainStack := ex.depth, ex.callStack
	killed := false
	killAll := func() {
		if !killed {
			killed = true
			close(ts.kill)
		}
	}
	defer func() {
		killAll()
		ex.threads = nil
		ex.depth, ex.callStack = mainDepth, mainStack
	}()
	for {
		var enabled []*thread
		alive := 0
		for _, t := range ts.threads {
			switch t.state {
			case tNew, tWantAtomic:
				enabled = append(enabled, t)
				alive++
			case tWantLock:
				alive++
				if ts.available(t) {
					enabled = append(enabled, t)
				}
			}
		}
		if alive == 0 {
			break
		}
		ts.cur = nil
		ex.depth, ex.callStack = mainDepth, mainStack
		if len(enabled) == 0 {
			ex.fail("deadlock", "deadlock: every live thread waits for a lock that is held", "")
		}
		t := enabled[ex.choice(len(enabled))]
		ts.step++
		ts.cur = t
		ex.depth, ex.callStack = t.depth, t.callStack
		if t.state == tNew {
			t.state = tRunning
			go ts.runThread(ex, caller, t)
		} else if t.state == tWantAtomic {
			t.state = tRunning
			t.resume <- struct{}{}
		} else {
			l := ts.lockOf(t.want)
			if t.wantRead {
				l.readers[t.id] = true
				joinVC(t.vc, l.vcW)
			} else {
				l.holder = t.id
				joinVC(t.vc, l.vcW)
				joinVC(t.vc, l.vcR)
			}
			t.state = tRunning
			t.resume <- struct{}{}
		}
		msg := <-ts.yield
		t.depth, t.callStack = ex.depth, ex.callStack
		if msg.pan != nil {
			killAll()
			ts.cur = nil
			ex.depth, ex.callStack = mainDepth, mainStack
			panic(msg.pan)
		}
	}
	ts.cur = nil
}

func (ts *threadState) runThread(ex *Exec, caller *frame, t *thread) {
	defer func() {
		r := recover()
		if _, ok := r.(threadKilled); ok {
			return
		}
		t.state = tDone
		select {
		case ts.yield <- yieldMsg{pan: r}:
		case <-ts.kill:
		}
	}()
	ex.call(nil, t.fn, nil)
}

// park hands the baton back to the scheduler and waits to be resumed.
func (ts *threadState) park(t *thread) {
	select {
	case ts.yield <- yieldMsg{}:
	case <-ts.kill:
		panic(threadKilled{})
	}
	select {
	case <-t.resume:
	case <-ts.kill:
		panic(threadKilled{})
	}
}

func (ts *threadState) lock(ex *Exec, p *Value)  { ts.acquire(ex, p, false) }
func (ts *threadState) rlock(ex *Exec, p *Value) { ts.acquire(ex, p, true) }

func (ts *threadState) acquire(ex *Exec, p *Value, read bool) {
	t := ts.cur
	if t == nil {
		panic(unsupported("lock operation on the scheduler thread during vPar"))
	}
	ex.flush()
	t.want, t.wantRead, t.state = p, read, tWantLock
	ts.park(t)
}

func (ts *threadState) unlock(ex *Exec, p *Value) {
	t := ts.cur
	l := ts.lockOf(p)
	if t == nil || l.holder != t.id {
		ex.fail("panic", "sync: unlock of unlocked mutex", "")
	}
	copy(l.vcW, t.vc)
	for i := range l.vcR {
		l.vcR[i] = 0
	}
	l.holder = -1
	t.vc[t.id]++
}

func (ts *threadState) runlock(ex *Exec, p *Value) {
	t := ts.cur
	l := ts.lockOf(p)
	if t == nil || !l.readers[t.id] {
		ex.fail("panic", "sync: RUnlock of unlocked RWMutex", "")
	}
	joinVC(l.vcR, t.vc)
	delete(l.readers, t.id)
	t.vc[t.id]++
}

func (ex *Exec) raceCheck(m *cellMeta, write bool, what string) {
	t := ex.threads.cur
	if t == nil {
		return
	}
	if m.wTid >= 0 && m.wTid != t.id && m.wClk > t.vc[m.wTid] {
		ex.fail("race", "data race", fmt.Sprintf("%s: access by thread %d is not ordered after a write by thread %d", what, t.id, m.wTid))
	}
	if write {
		for u, c := range m.reads {
			if u != t.id && c > t.vc[u] {
				ex.fail("race", "data race", fmt.Sprintf("%s: write by thread %d is not ordered after a read by thread %d", what, t.id, u))
			}
		}
		m.wTid, m.wClk = t.id, t.vc[t.id]
		m.reads = nil
	} else {
		if m.reads == nil {
			m.reads = map[int]int{}
		}
		m.reads[t.id] = t.vc[t.id]
	}
}

func (ex *Exec) noteAccess(p *Value, write bool) {
	if ex.threads == nil || p == nil {
		return
	}
	ex.noteCellAccess(p, write, 0)
}

func (ex *Exec) noteCellAccess(p *Value, write bool, depth int) {
	ts := ex.threads
	m := ts.cells[p]
	if m == nil {
		m = &cellMeta{wTid: -1}
		ts.cells[p] = m
	}
	ex.raceCheck(m, write, "memory cell")
	if depth < 3 {
		switch v := (*p).(type) {
		case Struct:
			for i := range v {
				ex.noteCellAccess(&v[i], write, depth+1)
			}
		case Array:
			if len(v) <= 16 {
				for i := range v {
					ex.noteCellAccess(&v[i], write, depth+1)
				}
			}
		}
	}
}

func (ex *Exec) noteMap(mp *Map, write bool) {
	if ex.threads == nil || mp == nil {
		return
	}
	ts := ex.threads
	m := ts.maps[mp]
	if m == nil {
		m = &cellMeta{wTid: -1}
		ts.maps[mp] = m
	}
	ex.raceCheck(m, write, "map")
}

func (ex *Exec) noteCell(v Value) {}

func (ex *Exec) stamp() int64 {
	if ex.threads == nil {
		return 0
	}
	return int64(ex.threads.step)
}

// atomicPoint makes an atomic operation on cell p a schedule point and
// synchronises the thread with every earlier atomic operation on p.
func (ts *threadState) atomicPoint(ex *Exec, p *Value) {
	t := ts.cur
	if t == nil {
		return
	}
	ex.flush()
	t.state = tWantAtomic
	ts.park(t)
	vc := ts.atomics[p]
	if vc == nil {
		vc = make([]int, len(ts.threads))
		ts.atomics[p] = vc
	}
	joinVC(t.vc, vc)
	copy(vc, t.vc)
	t.vc[t.id]++
}
