package main

// Threads for C09 (vPar). Filled in later; sequential runs only use the
// no-op hooks below.

type threadState struct{}

func (ex *Exec) noteAccess(p *Value, write bool) {}
func (ex *Exec) noteMap(m *Map, write bool)     {}
func (ex *Exec) noteCell(v Value)               {}

func (t *threadState) lock(ex *Exec, p *Value)   { panic(unsupported("threads")) }
func (t *threadState) unlock(ex *Exec, p *Value) { panic(unsupported("threads")) }

func (ex *Exec) runThreads(caller *frame, fs []Value) { panic(unsupported("vPar not implemented yet")) }
