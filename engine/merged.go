package main

// Summarising pure callees: a small, loop-free, side-effect-free function
// (comparison functions, predicates, min/max helpers) is evaluated on both
// sides of a symbolic branch and its results are merged into an ite term, so
// that calling it does not fork the path. Any operation that would need a
// fork, could fault, or has an effect aborts the attempt and the function is
// executed normally.

import (
	"go/token"
	"go/types"

	"golang.org/x/tools/go/ssa"
)

type mergeInfo struct{ ok bool }

func (p *Program) mergeable(fn *ssa.Function) bool {
	if v, ok := p.merge.Load(fn); ok {
		return v.(bool)
	}
	ok := staticMergeable(fn)
	p.merge.Store(fn, ok)
	return ok
}

func staticMergeable(fn *ssa.Function) bool {
	if fn.Blocks == nil || len(fn.Blocks) > 32 || fn.Recover != nil {
		return false
	}
	if fn.TypeParams().Len() > 0 && len(fn.TypeArgs()) == 0 {
		return false
	}
	nIf := 0
	// acyclic?
	state := make([]int, len(fn.Blocks))
	var cyc func(b *ssa.BasicBlock) bool
	cyc = func(b *ssa.BasicBlock) bool {
		state[b.Index] = 1
		for _, s := range b.Succs {
			if state[s.Index] == 1 {
				return true
			}
			if state[s.Index] == 0 && cyc(s) {
				return true
			}
		}
		state[b.Index] = 2
		return false
	}
	if cyc(fn.Blocks[0]) {
		return false
	}
	for _, b := range fn.Blocks {
		for _, in := range b.Instrs {
			switch in := in.(type) {
			case *ssa.If:
				nIf++
			case *ssa.BinOp, *ssa.Phi, *ssa.Jump, *ssa.Return, *ssa.Field, *ssa.Extract, *ssa.ChangeType,
				*ssa.DebugRef, *ssa.FieldAddr, *ssa.IndexAddr, *ssa.Index, *ssa.Convert:
			case *ssa.Alloc:
				if in.Heap {
					return false
				}
			case *ssa.Store:
				// only spills of values into the function's own locals
				if a, ok := in.Addr.(*ssa.Alloc); !ok || a.Heap {
					return false
				}
			case *ssa.UnOp:
				if in.Op == token.ARROW {
					return false
				}
			case *ssa.Call:
				if in.Call.IsInvoke() {
					return false
				}
				switch c := in.Call.Value.(type) {
				case *ssa.Builtin:
					switch c.Name() {
					case "len", "cap", "min", "max":
					default:
						return false
					}
				}
			default:
				return false
			}
		}
	}
	return nIf > 0
}

type mergeBail struct{}

type mframe struct {
	fn     *ssa.Function
	env    map[ssa.Value]Value
	budget *int
	forked int // nesting of symbolic branches being evaluated on both sides
}

func (ex *Exec) tryMerged(fn *ssa.Function, args []Value, env []Value) (res Value, ok bool) {
	if ex.merging > 0 || ex.noMerge || !ex.w.prog.mergeable(fn) {
		return nil, false
	}
	// only worthwhile when some input is symbolic
	ex.merging++
	steps := ex.steps
	defer func() {
		ex.merging--
		if r := recover(); r != nil {
			switch r.(type) {
			case mergeBail, noMerge:
				ex.steps = steps
				res, ok = nil, false
			default:
				panic(r)
			}
		}
	}()
	budget := 400
	return ex.mergedCall(fn, args, env, &budget), true
}

func (ex *Exec) mergedCall(fn *ssa.Function, args []Value, env []Value, budget *int) Value {
	mf := &mframe{fn: fn, env: make(map[ssa.Value]Value, 16), budget: budget}
	for _, l := range fn.Locals {
		cell := zero(deref(l.Type()))
		mf.env[l] = &cell
	}
	for i, p := range fn.Params {
		mf.env[p] = args[i]
	}
	for i, fv := range fn.FreeVars {
		mf.env[fv] = env[i]
	}
	ex.funcs[fn] = true
	return ex.mergedBlock(mf, fn.Blocks[0], nil)
}

func (mf *mframe) get(ex *Exec, key ssa.Value) Value {
	switch key := key.(type) {
	case nil:
		return nil
	case *ssa.Function, *ssa.Builtin:
		return key
	case *ssa.Const:
		return constValue(key)
	case *ssa.Global:
		return ex.global(key)
	}
	if r, ok := mf.env[key]; ok {
		return r
	}
	panic(engineError("merged get: no value for " + key.Name()))
}

func (ex *Exec) mergedBlock(mf *mframe, b, prev *ssa.BasicBlock) Value {
	for {
		*mf.budget--
		if *mf.budget < 0 {
			panic(mergeBail{})
		}
		// phis
		i := 0
		if prev != nil {
			predIndex := -1
			for k, p := range b.Preds {
				if p == prev {
					predIndex = k
				}
			}
			var temps []Value
			for ; i < len(b.Instrs); i++ {
				phi, ok := b.Instrs[i].(*ssa.Phi)
				if !ok {
					break
				}
				temps = append(temps, mf.get(ex, phi.Edges[predIndex]))
			}
			for k := 0; k < i; k++ {
				mf.env[b.Instrs[k].(*ssa.Phi)] = temps[k]
			}
		}
		var next *ssa.BasicBlock
		for ; i < len(b.Instrs); i++ {
			ex.steps++
			switch in := b.Instrs[i].(type) {
			case *ssa.DebugRef:
			case *ssa.Alloc:
				// local cell allocated at call entry; re-zero
				if mf.forked > 0 {
					panic(mergeBail{})
				}
				*(mf.env[in].(*Value)) = zero(deref(in.Type()))
			case *ssa.Store:
				if mf.forked > 0 {
					panic(mergeBail{})
				}
				store(deref(in.Addr.Type()), mf.get(ex, in.Addr).(*Value), mf.get(ex, in.Val))
			case *ssa.BinOp:
				mf.env[in] = ex.binop(in.Op, in.X.Type(), in.Y.Type(), mf.get(ex, in.X), mf.get(ex, in.Y))
			case *ssa.UnOp:
				mf.env[in] = ex.unop(in, mf.get(ex, in.X))
			case *ssa.ChangeType:
				mf.env[in] = mf.get(ex, in.X)
			case *ssa.Convert:
				_, ok1 := basicInt(in.X.Type().Underlying())
				_, ok2 := basicInt(in.Type().Underlying())
				if !ok1 || !ok2 {
					panic(mergeBail{})
				}
				mf.env[in] = ex.conv(nil, nil, in.Type(), in.X.Type(), mf.get(ex, in.X))
			case *ssa.Field:
				mf.env[in] = mf.get(ex, in.X).(Struct)[in.Field]
			case *ssa.Extract:
				mf.env[in] = mf.get(ex, in.Tuple).(tuple)[in.Index]
			case *ssa.FieldAddr:
				p, ok := mf.get(ex, in.X).(*Value)
				if !ok || p == nil {
					panic(mergeBail{})
				}
				mf.env[in] = &(*p).(Struct)[in.Field]
			case *ssa.IndexAddr:
				x := mf.get(ex, in.X)
				var base []Value
				switch x := x.(type) {
				case []Value:
					base = x
				case *Value:
					if x == nil {
						panic(mergeBail{})
					}
					base = (*x).(Array)
				default:
					panic(mergeBail{})
				}
				ik, _ := basicInt(in.Index.Type())
				mf.env[in] = ex.indexAddr(base, mf.get(ex, in.Index), ik)
			case *ssa.Index:
				x := mf.get(ex, in.X)
				ik, _ := basicInt(in.Index.Type())
				var base []Value
				switch x := x.(type) {
				case Array:
					base = x
				case string, *SymStr:
					base = strBytes(x)
				default:
					panic(mergeBail{})
				}
				mf.env[in] = ex.loadFrom(in.Type(), ex.indexAddr(base, mf.get(ex, in.Index), ik))
			case *ssa.Call:
				var args []Value
				for _, a := range in.Call.Args {
					args = append(args, mf.get(ex, a))
				}
				switch f := mf.get(ex, in.Call.Value).(type) {
				case *ssa.Builtin:
					mf.env[in] = ex.callBuiltin(nil, f, args)
				case *ssa.Function:
					if f == nil || !ex.mergeableCallee(f) {
						panic(mergeBail{})
					}
					mf.env[in] = ex.mergedCall(f, args, nil, mf.budget)
				case *closure:
					if !ex.mergeableCallee(f.Fn) {
						panic(mergeBail{})
					}
					mf.env[in] = ex.mergedCall(f.Fn, args, f.Env, mf.budget)
				default:
					panic(mergeBail{})
				}
			case *ssa.Jump:
				next = b.Succs[0]
			case *ssa.If:
				c := mf.get(ex, in.Cond)
				switch c := c.(type) {
				case bool:
					if c {
						next = b.Succs[0]
					} else {
						next = b.Succs[1]
					}
				case *Term:
					if v, ok := ex.known(c); ok {
						if v {
							next = b.Succs[0]
						} else {
							next = b.Succs[1]
						}
						break
					}
					// evaluate both sides on copies of the environment
					save := mf.env
					mf.forked++
					mf.env = copyEnv(save)
					r1 := ex.mergedBlock(mf, b.Succs[0], b)
					mf.env = copyEnv(save)
					r2 := ex.mergedBlock(mf, b.Succs[1], b)
					mf.env = save
					mf.forked--
					return ex.mergeResults(mf.fn, c, r1, r2)
				}
			case *ssa.Return:
				switch len(in.Results) {
				case 0:
					return nil
				case 1:
					return mf.get(ex, in.Results[0])
				}
				res := make(tuple, len(in.Results))
				for k, r := range in.Results {
					res[k] = mf.get(ex, r)
				}
				return res
			default:
				panic(mergeBail{})
			}
		}
		if next == nil {
			panic(engineError("merged block without terminator"))
		}
		prev, b = b, next
	}
}

func (ex *Exec) mergeableCallee(f *ssa.Function) bool {
	if ex.w.prog.intrinsic(f) != nil {
		return false
	}
	if f.Blocks == nil {
		return false
	}
	if ex.w.prog.mergeable(f) {
		return true
	}
	// straight-line pure callee (no If) is fine too
	return straightLinePure(ex.w.prog, f)
}

func straightLinePure(p *Program, f *ssa.Function) bool {
	if v, ok := p.straight.Load(f); ok {
		return v.(bool)
	}
	ok := len(f.Blocks) == 1 && f.Recover == nil
	if ok {
		for _, in := range f.Blocks[0].Instrs {
			switch in := in.(type) {
			case *ssa.BinOp, *ssa.Return, *ssa.Field, *ssa.Extract, *ssa.ChangeType, *ssa.DebugRef, *ssa.FieldAddr, *ssa.IndexAddr, *ssa.Index, *ssa.Convert:
			case *ssa.UnOp:
				if in.Op == token.ARROW {
					ok = false
				}
			case *ssa.Call:
				if in.Call.IsInvoke() {
					ok = false
				}
				if b, isB := in.Call.Value.(*ssa.Builtin); isB {
					switch b.Name() {
					case "len", "cap", "min", "max":
					default:
						ok = false
					}
				}
			default:
				ok = false
			}
		}
	}
	p.straight.Store(f, ok)
	return ok
}

func copyEnv(m map[ssa.Value]Value) map[ssa.Value]Value {
	out := make(map[ssa.Value]Value, len(m)+8)
	for k, v := range m {
		out[k] = v
	}
	return out
}

func (ex *Exec) mergeResults(fn *ssa.Function, c *Term, r1, r2 Value) Value {
	res := fn.Signature.Results()
	switch res.Len() {
	case 0:
		return nil
	case 1:
		return ex.mergeValues(res.At(0).Type(), c, r1, r2)
	}
	return ex.mergeValues(res, c, r1, r2)
}

var _ types.Type
