package main

import "golang.org/x/tools/go/ssa"

// tryMerged evaluates small pure loop-free functions without forking
// (summarising pure callees). Filled in later.
func (ex *Exec) tryMerged(fn *ssa.Function, args []Value, env []Value) (Value, bool) {
	return nil, false
}
