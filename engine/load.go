package main

// Front end: load the package under test from /repo's working tree with the
// harness files and the run-time shim overlaid in memory, and build SSA with
// instantiated generics.

import (
	"fmt"
	"go/types"
	"os"
	"path/filepath"
	"strings"
	"sync"

	"golang.org/x/tools/go/packages"
	"golang.org/x/tools/go/ssa"
	"golang.org/x/tools/go/ssa/ssautil"
)

const shimFileName = "zz_verif_rt.go"
const repoModule = "github.com/creachadair/mds"

type Program struct {
	ssa            *ssa.Program
	target         *ssa.Package
	targetPath     string
	intr           sync.Map
	merge          sync.Map
	straight       sync.Map
	runtimeErrType types.Type
	loadSeconds    float64
	overlayFiles   []string
}

type staleError struct{ msg string }

func (e *staleError) Error() string { return e.msg }

func goEnv() []string {
	env := os.Environ()
	env = append(env, "GOFLAGS=-mod=mod", "GOPROXY=off", "GOSUMDB=off", "GOTOOLCHAIN=local", "CGO_ENABLED=0")
	return env
}

// buildOverlay returns virtual path -> contents for the harness files, the
// shim and any source patches.
func buildOverlay(repo, verif string, spec *CheckSpec, patches []SourcePatch, native bool) (map[string][]byte, error) {
	ov := map[string][]byte{}
	pkgDir := filepath.Join(repo, spec.Package)
	pkgName := spec.PackageName
	if pkgName == "" {
		pkgName = filepath.Base(spec.Package)
	}
	shimSrc := "harness/rt_engine.go.txt"
	if native {
		shimSrc = "harness/rt_native.go.txt"
	}
	b, err := os.ReadFile(filepath.Join(verif, shimSrc))
	if err != nil {
		return nil, err
	}
	ov[filepath.Join(pkgDir, shimFileName)] = []byte(strings.Replace(string(b), "package PKG", "package "+pkgName, 1))
	for _, h := range spec.HarnessFiles {
		b, err := os.ReadFile(filepath.Join(verif, h))
		if err != nil {
			return nil, err
		}
		name := "zz_verif_" + strings.TrimSuffix(filepath.Base(h), ".go") + ".go"
		if native {
			// keep out of non-test builds of dependants; in-package file is fine
		}
		ov[filepath.Join(pkgDir, name)] = b
	}
	for _, p := range patches {
		path := filepath.Join(repo, p.File)
		src, ok := ov[path] // several patches may address one file
		if !ok {
			if strings.HasPrefix(filepath.Base(p.File), "zz_verif_") {
				continue // a patch of another unit's harness file
			}
			var err error
			src, err = os.ReadFile(path)
			if err != nil {
				return nil, err
			}
		}
		ns, err := p.apply(string(src))
		if err != nil {
			return nil, err
		}
		ov[path] = []byte(ns)
	}
	return ov, nil
}

func loadProgram(repo string, spec *CheckSpec, overlay map[string][]byte) (*Program, error) {
	cfg := &packages.Config{
		Mode:    packages.LoadAllSyntax,
		Dir:     repo,
		Overlay: overlay,
		Env:     goEnv(),
	}
	pkgs, err := packages.Load(cfg, "./"+spec.Package)
	if err != nil {
		return nil, err
	}
	var msgs []string
	harnessOnly := true
	packages.Visit(pkgs, nil, func(p *packages.Package) {
		for _, e := range p.Errors {
			msgs = append(msgs, e.Error())
			if !strings.Contains(e.Pos, "zz_verif_") {
				harnessOnly = false
			}
		}
	})
	if len(msgs) > 0 {
		m := strings.Join(msgs, "\n")
		if harnessOnly {
			return nil, &staleError{m}
		}
		return nil, fmt.Errorf("package load errors:\n%s", m)
	}
	prog, ssaPkgs := ssautil.AllPackages(pkgs, ssa.InstantiateGenerics)
	prog.Build()
	p := &Program{ssa: prog, target: ssaPkgs[0], targetPath: pkgs[0].PkgPath}
	if p.target == nil {
		return nil, fmt.Errorf("no SSA package for %s", spec.Package)
	}
	if rt := prog.ImportedPackage("runtime"); rt != nil {
		if t := rt.Type("errorString"); t != nil {
			p.runtimeErrType = t.Type()
		}
	}
	if p.runtimeErrType == nil {
		p.runtimeErrType = types.Typ[types.String]
	}
	for f := range overlay {
		p.overlayFiles = append(p.overlayFiles, f)
	}
	return p, nil
}

var initAllow = map[string]bool{
	"io": true, "bufio": true, "bytes": true, "strings": true, "strconv": true,
	"unicode/utf8": true, "math/bits": true, "slices": true, "cmp": true, "sort": true, "math": true,
	"maps": true, "iter": true, "internal/itoa": true, "internal/stringslite": true, "time": true, "encoding/binary": true,
}

// zero-valued globals of packages whose init is not run; in addition every
// global of internal/cpu reads as zero (no optional CPU features: the portable
// code paths of math, bytealg etc. are the ones interpreted)
var zeroGlobalOK = map[string]bool{
	"internal/bytealg.MaxLen": true,
}

func initAllowed(path, target string) bool {
	return path == target || strings.HasPrefix(path, repoModule) || initAllow[path]
}

var refusedPkgs = map[string]bool{
	"os": true, "syscall": true, "reflect": true, "runtime": true, "time": false, "internal/poll": true,
	"os/exec": true, "net": true, "crypto/rand": true,
}

func (p *Program) refused(fn *ssa.Function) bool {
	if fn.Pkg == nil {
		return false
	}
	return refusedPkgs[fn.Pkg.Pkg.Path()]
}
