package main

// A persistent SMT solver process (z3 -in by default) driven with push/pop.
// The asserted stack is kept aligned with the path condition of the
// executing path, so consecutive paths that share a prefix share the work.

import (
	"bufio"
	"fmt"
	"io"
	"os"
	"os/exec"
	"strconv"
	"strings"
	"sync/atomic"
	"time"
)

type SatResult int

const (
	Unsat SatResult = iota
	Sat
	Unknown
)

func (r SatResult) String() string { return [...]string{"unsat", "sat", "unknown"}[r] }

type Solver struct {
	kind    string // z3 | z3-new | cvc5
	cmd     *exec.Cmd
	in      *bufio.Writer
	out     *bufio.Reader
	frames  []*Term
	epoch   int
	tctx    *TermCtx
	timeout time.Duration
	log     io.Writer
	killed  atomic.Bool // set by the watchdog of Check
	// stats
	Queries   int
	SatN      int
	UnsatN    int
	UnknownN  int
	Time      time.Duration
	sinceBoot int
	seed      int64
	Restarts  int
	dump      *queryDump
}

var solverEpoch = 0

func NewSolver(kind string, tctx *TermCtx, timeout time.Duration) (*Solver, error) {
	s := &Solver{kind: kind, tctx: tctx, timeout: timeout}
	if p := os.Getenv("SYMGO_SMTLOG"); p != "" {
		f, err := os.Create(fmt.Sprintf("%s.%d", p, time.Now().UnixNano()))
		if err == nil {
			s.log = f
		}
	}
	if err := s.boot(); err != nil {
		return nil, err
	}
	return s, nil
}

func (s *Solver) boot() error {
	var cmd *exec.Cmd
	ms := strconv.Itoa(int(s.timeout / time.Millisecond))
	switch s.kind {
	case "z3", "z3-new":
		cmd = exec.Command(s.kind, "-in", "-t:"+ms, "-memory:"+solverMemMB())
	case "cvc5":
		cmd = exec.Command("cvc5", "--incremental", "--lang=smt2", "--produce-models", "--tlimit-per="+ms)
	default:
		return fmt.Errorf("unknown solver %q", s.kind)
	}
	stdin, err := cmd.StdinPipe()
	if err != nil {
		return err
	}
	stdout, err := cmd.StdoutPipe()
	if err != nil {
		return err
	}
	cmd.Stderr = os.Stderr
	if err := cmd.Start(); err != nil {
		return err
	}
	s.cmd = cmd
	s.in = bufio.NewWriterSize(stdin, 1<<16)
	s.out = bufio.NewReaderSize(stdout, 1<<16)
	s.frames = s.frames[:0]
	s.epoch++
	s.sinceBoot = 0
	s.send("(set-option :global-declarations true)")
	s.send("(set-option :produce-models true)")
	s.send("(set-logic ALL)")
	s.sendSeed()
	return nil
}

func (s *Solver) Close() {
	if s.cmd != nil {
		s.send("(exit)")
		s.in.Flush()
		done := make(chan struct{})
		go func() { s.cmd.Wait(); close(done) }()
		select {
		case <-done:
		case <-time.After(2 * time.Second):
			s.cmd.Process.Kill()
			<-done
		}
		s.cmd = nil
	}
}

func (s *Solver) restart() {
	s.Close()
	s.Restarts++
	if err := s.boot(); err != nil {
		panic(engineError("solver restart failed: " + err.Error()))
	}
}

func (s *Solver) send(line string) {
	if s.log != nil {
		fmt.Fprintln(s.log, line)
	}
	s.in.WriteString(line)
	s.in.WriteByte('\n')
}

// define makes sure t and its sub-terms are known to the solver.
func (s *Solver) define(t *Term) {
	if t.emit == s.epoch || t.Op == OpConst {
		return
	}
	// iterative post-order to avoid deep recursion
	type fr struct {
		t *Term
		i int
	}
	st := []fr{{t, 0}}
	for len(st) > 0 {
		f := &st[len(st)-1]
		if f.t.emit == s.epoch || f.t.Op == OpConst {
			st = st[:len(st)-1]
			continue
		}
		if f.i < len(f.t.Args) {
			a := f.t.Args[f.i]
			f.i++
			if a.emit != s.epoch && a.Op != OpConst {
				st = append(st, fr{a, 0})
			}
			continue
		}
		x := f.t
		if x.Op == OpVar {
			s.send(fmt.Sprintf("(declare-const %s %s)", x.Name, x.Sort))
		} else {
			s.send(fmt.Sprintf("(define-fun %s () %s %s)", x.ref(), x.Sort, x.body()))
		}
		x.emit = s.epoch
		st = st[:len(st)-1]
	}
}

// sync aligns the solver's assertion stack with pc.
func (s *Solver) sync(pc []*Term) {
	if s.sinceBoot > 4000 && len(pc) <= 1 {
		s.restart()
	}
	k := 0
	for k < len(pc) && k < len(s.frames) && pc[k] == s.frames[k] {
		k++
	}
	if n := len(s.frames) - k; n > 0 {
		s.send(fmt.Sprintf("(pop %d)", n))
		s.frames = s.frames[:k]
	}
	for ; k < len(pc); k++ {
		s.define(pc[k])
		s.send("(push 1)")
		s.send("(assert " + pc[k].ref() + ")")
		s.frames = append(s.frames, pc[k])
	}
}

func (s *Solver) readLine() string {
	line, err := s.out.ReadString('\n')
	if err != nil {
		if s.killed.Load() {
			panic(solverKilled{})
		}
		panic(engineError("solver died: " + err.Error()))
	}
	return strings.TrimSpace(line)
}

// solverKilled is raised inside Check when the watchdog had to kill a solver
// process that ignored its own time limit (or ran out of its memory limit).
type solverKilled struct{}

func solverMemMB() string {
	if v := os.Getenv("SYMGO_SOLVER_MEM_MB"); v != "" {
		return v
	}
	return "3072"
}

// Check decides pc ∧ extra. vars lists the variables whose model values are
// wanted when the answer is sat.
func (s *Solver) Check(pc []*Term, extra *Term, vars []*Term) (res SatResult, model Model) {
	t0 := time.Now()
	// watchdog: the solver's own per-query limit is a soft one; a process that
	// does not answer within twice that (plus slack) is killed, the query is
	// Unknown (never a pass), and a fresh process is booted.
	s.killed.Store(false)
	proc := s.cmd.Process
	wd := time.AfterFunc(2*s.timeout+10*time.Second, func() {
		s.killed.Store(true)
		proc.Kill()
	})
	defer func() {
		wd.Stop()
		if r := recover(); r != nil {
			if _, ok := r.(solverKilled); !ok {
				panic(r)
			}
			s.cmd.Wait()
			s.cmd = nil
			s.Restarts++
			if err := s.boot(); err != nil {
				panic(engineError("solver restart failed: " + err.Error()))
			}
			s.Queries++
			s.UnknownN++
			s.Time += time.Since(t0)
			if s.dump != nil {
				s.dump.pending = false
			}
			res, model = Unknown, nil
		}
	}()
	s.sync(pc)
	if extra != nil {
		s.define(extra)
		s.send("(push 1)")
		s.send("(assert " + extra.ref() + ")")
	}
	if s.dump != nil {
		s.dump.record(s, pc, extra)
	}
	s.send("(check-sat)")
	s.in.Flush()
	res = Unknown
	ans := s.readLine()
	for strings.HasPrefix(ans, "(error") || ans == "" {
		if strings.HasPrefix(ans, "(error") && strings.Contains(ans, "memory") {
			// the solver hit its memory limit: unknown, on a fresh process
			s.killed.Store(true)
			proc.Kill()
			panic(solverKilled{})
		}
		if strings.HasPrefix(ans, "(error") {
			fmt.Fprintln(os.Stderr, "SOLVER ERROR:", ans)
			panic(engineError("solver reported " + ans))
		}
		ans = s.readLine()
	}
	switch ans {
	case "sat":
		res = Sat
	case "unsat":
		res = Unsat
	default:
		res = Unknown
	}
	if s.dump != nil && s.dump.pending {
		s.dump.results = append(s.dump.results, res.String())
		s.dump.pending = false
	}
	if res == Sat {
		model = s.getModel(vars)
	}
	if extra != nil {
		s.send("(pop 1)")
	}
	s.Queries++
	s.sinceBoot++
	switch res {
	case Sat:
		s.SatN++
	case Unsat:
		s.UnsatN++
	default:
		s.UnknownN++
	}
	s.Time += time.Since(t0)
	return res, model
}

func (s *Solver) getModel(vars []*Term) Model {
	m := Model{}
	var names []string
	var vs []*Term
	for _, v := range vars {
		if v.emit == s.epoch {
			names = append(names, v.Name)
			vs = append(vs, v)
		}
	}
	if len(vs) == 0 {
		return m
	}
	s.send("(get-value (" + strings.Join(names, " ") + "))")
	s.in.Flush()
	// read a balanced s-expression
	var sb strings.Builder
	depth := 0
	started := false
	for !started || depth > 0 {
		line := s.readLine()
		if strings.HasPrefix(line, "(error") {
			panic(engineError("solver reported " + line))
		}
		for _, ch := range line {
			if ch == '(' {
				depth++
				started = true
			} else if ch == ')' {
				depth--
			}
		}
		sb.WriteString(line)
		sb.WriteByte(' ')
	}
	toks := tokenize(sb.String())
	// ( ( name value ) ( name value ) ... ) where value may be (- n) or (_ bvN w)
	pos := 1
	byName := map[string]*Term{}
	for _, v := range vs {
		byName[v.Name] = v
	}
	for pos < len(toks) && toks[pos] == "(" {
		pos++
		name := toks[pos]
		pos++
		var val uint64
		if toks[pos] == "(" {
			pos++
			switch toks[pos] {
			case "-":
				n, _ := strconv.ParseInt(toks[pos+1], 10, 64)
				val = uint64(-n)
				pos += 3
			case "_":
				n, _ := strconv.ParseUint(strings.TrimPrefix(toks[pos+1], "bv"), 10, 64)
				val = n
				pos += 4
			default:
				panic(engineError("unparsed model value near " + toks[pos]))
			}
		} else {
			val = parseSMTValue(toks[pos])
			pos++
		}
		pos++ // ")"
		if v := byName[name]; v != nil {
			if v.Sort.K == SBV {
				val &= mask(v.Sort.W)
			}
			m[v] = val
		}
	}
	return m
}

func parseSMTValue(tok string) uint64 {
	switch {
	case tok == "true":
		return 1
	case tok == "false":
		return 0
	case strings.HasPrefix(tok, "#x"):
		v, _ := strconv.ParseUint(tok[2:], 16, 64)
		return v
	case strings.HasPrefix(tok, "#b"):
		v, _ := strconv.ParseUint(tok[2:], 2, 64)
		return v
	}
	v, err := strconv.ParseInt(tok, 10, 64)
	if err != nil {
		panic(engineError("unparsed model value " + tok))
	}
	return uint64(v)
}

func tokenize(s string) []string {
	var out []string
	cur := strings.Builder{}
	flush := func() {
		if cur.Len() > 0 {
			out = append(out, cur.String())
			cur.Reset()
		}
	}
	for _, ch := range s {
		switch ch {
		case '(', ')':
			flush()
			out = append(out, string(ch))
		case ' ', '\t', '\n', '\r':
			flush()
		default:
			cur.WriteRune(ch)
		}
	}
	flush()
	return out
}

// ---------- standalone query dumps for the cross-solver second opinion ----------

type queryDump struct {
	every   int
	n       int
	files   []string
	results []string
	dir     string
	max     int
	tag     int
	pending bool
}

// record writes the current query as a standalone SMT-LIB2 script.
func (d *queryDump) record(s *Solver, pc []*Term, extra *Term) {
	d.n++
	if d.every <= 0 || d.n%d.every != 0 || len(d.files) >= d.max {
		return
	}
	var sb strings.Builder
	sb.WriteString("(set-logic ALL)\n")
	seen := map[*Term]bool{}
	var emit func(t *Term)
	emit = func(t *Term) {
		if seen[t] || t.Op == OpConst {
			return
		}
		seen[t] = true
		for _, a := range t.Args {
			emit(a)
		}
		if t.Op == OpVar {
			fmt.Fprintf(&sb, "(declare-const %s %s)\n", t.Name, t.Sort)
		} else {
			fmt.Fprintf(&sb, "(define-fun %s () %s %s)\n", t.ref(), t.Sort, t.body())
		}
	}
	all := append([]*Term{}, pc...)
	if extra != nil {
		all = append(all, extra)
	}
	for _, t := range all {
		emit(t)
		fmt.Fprintf(&sb, "(assert %s)\n", t.ref())
	}
	sb.WriteString("(check-sat)\n")
	name := fmt.Sprintf("%s/w%02d_q%06d.smt2", d.dir, d.tag, d.n)
	if os.WriteFile(name, []byte(sb.String()), 0o644) == nil {
		d.files = append(d.files, name)
		d.pending = true
	}
}

// setSeed sets the solver's random seed (kept across restarts).
func (s *Solver) setSeed(seed int64) {
	s.seed = seed
	s.sendSeed()
}

func (s *Solver) sendSeed() {
	if s.seed == 0 {
		return
	}
	switch s.kind {
	case "z3", "z3-new":
		s.send(fmt.Sprintf("(set-option :smt.random_seed %d)", s.seed%1000000))
		s.send(fmt.Sprintf("(set-option :sat.random_seed %d)", s.seed%1000000))
	}
}
