package main

import (
	"fmt"
	"go/token"
	"go/types"

	"golang.org/x/tools/go/ssa"
)

var gcSizes = types.SizesFor("gc", "amd64")

func (ex *Exec) callBuiltin(caller *frame, fn *ssa.Builtin, args []Value) Value {
	switch fn.Name() {
	case "append":
		if len(args) == 1 {
			return args[0]
		}
		sig := fn.Type().(*types.Signature)
		st := sig.Params().At(0).Type().Underlying().(*types.Slice)
		var add []Value
		switch a := args[1].(type) {
		case string, *SymStr:
			add = strBytes(a)
		case []Value:
			add = a
		default:
			panic(engineError(fmt.Sprintf("append of %T", a)))
		}
		return ex.appendSlice(st.Elem(), args[0].([]Value), add)

	case "copy":
		dst := args[0].([]Value)
		var src []Value
		switch a := args[1].(type) {
		case string, *SymStr:
			src = strBytes(a)
		case []Value:
			src = a
		}
		n := len(dst)
		if len(src) < n {
			n = len(src)
		}
		// memmove semantics with aggregate copies
		tmp := make([]Value, n)
		for i := 0; i < n; i++ {
			ex.noteAccess(&src[i], false)
			tmp[i] = copyVal(src[i])
		}
		for i := 0; i < n; i++ {
			ex.noteAccess(&dst[i], true)
			dst[i] = tmp[i]
		}
		return int64(n)

	case "delete":
		sig := fn.Type().(*types.Signature)
		kt := sig.Params().At(0).Type().Underlying().(*types.Map).Key()
		ex.mapDelete(args[0].(*Map), kt, args[1])
		return nil

	case "clear":
		switch a := args[0].(type) {
		case *Map:
			if a != nil {
				ex.noteMap(a, true)
				for _, e := range a.entries {
					e.dead = true
				}
				a.entries = nil
				a.n = 0
			}
		case []Value:
			sig := fn.Type().(*types.Signature)
			et := sig.Params().At(0).Type().Underlying().(*types.Slice).Elem()
			for i := range a {
				a[i] = zero(et)
			}
		}
		return nil

	case "print", "println":
		return nil

	case "len":
		switch x := args[0].(type) {
		case string, *SymStr:
			return int64(strLen(x))
		case Array:
			return int64(len(x))
		case *Value:
			if x == nil {
				// len of nil *array is the array length; types needed — rare
				sig := fn.Type().(*types.Signature)
				return deref(sig.Params().At(0).Type()).Underlying().(*types.Array).Len()
			}
			return int64(len((*x).(Array)))
		case []Value:
			return int64(len(x))
		case *Map:
			if x == nil {
				return int64(0)
			}
			ex.noteMap(x, false)
			return int64(x.n)
		}
		panic(engineError(fmt.Sprintf("len of %T", args[0])))

	case "cap":
		switch x := args[0].(type) {
		case Array:
			return int64(len(x))
		case *Value:
			return int64(len((*x).(Array)))
		case []Value:
			return int64(cap(x))
		}
		panic(engineError(fmt.Sprintf("cap of %T", args[0])))

	case "min", "max":
		sig := fn.Type().(*types.Signature)
		t := sig.Params().At(0).Type()
		x := args[0]
		for _, y := range args[1:] {
			var c Value
			if fn.Name() == "min" {
				c = ex.binop(token.LSS, t, t, y, x)
			} else {
				c = ex.binop(token.GTR, t, t, y, x)
			}
			x = ex.iteValue(t, c, y, x)
		}
		return x

	case "panic":
		panic(targetPanic{args[0]})

	case "recover":
		return ex.doRecover(caller)

	case "ssa:wrapnilchk":
		recv := args[0]
		if p, ok := recv.(*Value); ok && p == nil {
			ex.rtPanic("value method %v.%v called using nil pointer", args[1], args[2])
		}
		return recv

	case "ssa:deferstack":
		return &caller.defers
	}
	panic(unsupported("built-in " + fn.Name()))
}

// iteValue selects between two values of type t on a boolean Value.
func (ex *Exec) iteValue(t types.Type, c Value, a, b Value) Value {
	switch c := c.(type) {
	case bool:
		if c {
			return a
		}
		return b
	case *Term:
		return ex.mergeValues(t, c, a, b)
	}
	panic(engineError("iteValue condition"))
}

// mergeValues builds ite(c,a,b) structurally; it panics with errNoMerge if the
// values cannot be merged (different pointers etc.).
type noMerge struct{}

func (ex *Exec) mergeValues(t types.Type, c *Term, a, b Value) Value {
	switch av := a.(type) {
	case bool, int64, *Term:
		if !isScalar(b) {
			panic(noMerge{})
		}
		var at, bt *Term
		if k, ok := basicInt(t); ok {
			if isOrd(a) || isOrd(b) {
				at, bt = ex.ordTerm(a), ex.ordTerm(b)
			} else {
				at, bt = ex.intTerm(a, k), ex.intTerm(b, k)
			}
			r := ex.tc.Ite(c, at, bt)
			if r.Sort.K == SInt {
				return r
			}
			return ex.intVal(r, k)
		}
		if isBoolT(t) {
			return ex.boolVal(ex.tc.Ite(c, ex.boolTerm(a), ex.boolTerm(b)))
		}
		panic(noMerge{})
	case Struct:
		bv, ok := b.(Struct)
		if !ok {
			panic(noMerge{})
		}
		st := t.Underlying().(*types.Struct)
		out := make(Struct, len(av))
		for i := range av {
			out[i] = ex.mergeValues(st.Field(i).Type(), c, av[i], bv[i])
		}
		return out
	case tuple:
		bv, ok := b.(tuple)
		if !ok {
			panic(noMerge{})
		}
		tt := t.(*types.Tuple)
		out := make(tuple, len(av))
		for i := range av {
			out[i] = ex.mergeValues(tt.At(i).Type(), c, av[i], bv[i])
		}
		return out
	case string:
		if bs, ok := b.(string); ok && bs == av {
			return a
		}
	case *Value:
		if bp, ok := b.(*Value); ok && bp == av {
			return a
		}
	case float64:
		if bf, ok := b.(float64); ok && bf == av {
			return a
		}
	case nil:
		if b == nil {
			return nil
		}
	}
	panic(noMerge{})
}

// ---------- append with the gc runtime's growth policy ----------

func (ex *Exec) appendSlice(et types.Type, s []Value, add []Value) []Value {
	for i := range add {
		ex.noteAccess(&add[i], false)
	}
	newLen := len(s) + len(add)
	if newLen <= cap(s) {
		out := s[:newLen]
		for i, v := range add {
			ex.noteAccess(&out[len(s)+i], true)
			out[len(s)+i] = copyVal(v)
		}
		return out
	}
	size := gcSizes.Sizeof(et)
	newCap := growCap(len(s), cap(s), newLen, size, !hasPointers(et))
	out := make([]Value, newLen, newCap)
	for i, v := range s {
		out[i] = v
	}
	for i, v := range add {
		out[len(s)+i] = copyVal(v)
	}
	full := out[:newCap]
	for i := newLen; i < newCap; i++ {
		full[i] = zero(et)
	}
	return out
}

// growCap emulates runtime.growslice's capacity computation (go1.20+).
func growCap(oldLen, oldCap, newLen int, elemSize int64, noscan bool) int {
	newcap := nextslicecap(newLen, oldCap)
	if elemSize == 0 {
		return newLen
	}
	mem := roundupsize(uintptr(int64(newcap)*elemSize), noscan)
	return int(int64(mem) / elemSize)
}

func hasPointers(t types.Type) bool {
	switch t := t.Underlying().(type) {
	case *types.Basic:
		return t.Info()&types.IsString != 0 || t.Kind() == types.UnsafePointer
	case *types.Array:
		return t.Len() > 0 && hasPointers(t.Elem())
	case *types.Struct:
		for i := 0; i < t.NumFields(); i++ {
			if hasPointers(t.Field(i).Type()) {
				return true
			}
		}
		return false
	}
	return true
}

func nextslicecap(newLen, oldCap int) int {
	newcap := oldCap
	doublecap := newcap + newcap
	if newLen > doublecap {
		return newLen
	}
	const threshold = 256
	if oldCap < threshold {
		return doublecap
	}
	for {
		newcap += (newcap + 3*threshold) >> 2
		if uint(newcap) >= uint(newLen) {
			break
		}
	}
	if newcap <= 0 {
		return newLen
	}
	return newcap
}

var classToSize = [...]uint16{0, 8, 16, 24, 32, 48, 64, 80, 96, 112, 128, 144, 160, 176, 192, 208, 224, 240, 256, 288, 320, 352, 384, 416, 448, 480, 512, 576, 640, 704, 768, 896, 1024, 1152, 1280, 1408, 1536, 1792, 2048, 2304, 2688, 3072, 3200, 3456, 4096, 4864, 5376, 6144, 6528, 6784, 6912, 8192, 9472, 9728, 10240, 10880, 12288, 13568, 14336, 16384, 18432, 19072, 20480, 21760, 24576, 27264, 28672, 32768}

func roundupsize(size uintptr, noscan bool) uintptr {
	req := size
	if req <= 32768-8 {
		if !noscan && req > 512 {
			req += 8 // malloc header
		}
		for _, c := range classToSize {
			if uintptr(c) >= req {
				return uintptr(c) - (req - size)
			}
		}
	}
	const pageSize = 8192
	return (req + pageSize - 1) &^ (pageSize - 1)
}
