package main

// Value representation: "symbolic scalars, concrete structure".
//
//   bool, *Term(Bool)           booleans
//   int64, *Term(BV w | Int)    integers of every Go integer type; a concrete
//                               value is kept sign-/zero-extended per its type
//   float64                     floats (concrete only)
//   string, *SymStr             strings (SymStr: concrete length, symbolic bytes)
//   *Value                      pointers (to a cell); *SymRef: element pointer
//                               with a symbolic index; UPtr: unsafe pointer
//   Struct, Array               aggregates held in cells / registers
//   []Value                     slices (Go's own len/cap/aliasing semantics)
//   *Map                        maps (ordered entry list)
//   iface, *closure, *ssa.Function, *ssa.Builtin, tuple, iterators

import (
	"fmt"
	"go/types"
	"strings"

	"golang.org/x/tools/go/ssa"
)

type Value = interface{}

type Struct []Value
type Array []Value
type tuple []Value

type iface struct {
	t types.Type
	v Value
}

type closure struct {
	Fn  *ssa.Function
	Env []Value
}

// SymStr is a string of concrete length whose bytes may be symbolic.
type SymStr struct {
	b []Value // each int64 in 0..255 or *Term of sort BV8
}

// SymRef is &base[idx] for a symbolic idx already known to be in range.
type SymRef struct {
	base []Value
	idx  *Term // BV64
}

// UPtr is an unsafe.Pointer (elem == nil) or a typed pointer obtained from
// one, remembering the slice window it was derived from.
type UPtr struct {
	base []Value // the slice the address was taken in (window = its length)
	idx  int
	elem types.Type
}

type mapEntry struct {
	k, v Value
	dead bool
}

type Map struct {
	entries []*mapEntry
	n       int
}

type chanVal struct{}

type deferred struct {
	fn    Value
	args  []Value
	instr *ssa.Defer
	tail  *deferred
}

// ---------- integer type info ----------

type intKind struct {
	w      int
	signed bool
}

func basicInt(t types.Type) (intKind, bool) {
	b, ok := t.Underlying().(*types.Basic)
	if !ok {
		return intKind{}, false
	}
	switch b.Kind() {
	case types.Int, types.Int64, types.UntypedInt:
		return intKind{64, true}, true
	case types.Int8:
		return intKind{8, true}, true
	case types.Int16:
		return intKind{16, true}, true
	case types.Int32, types.UntypedRune:
		return intKind{32, true}, true
	case types.Uint, types.Uint64, types.Uintptr:
		return intKind{64, false}, true
	case types.Uint8:
		return intKind{8, false}, true
	case types.Uint16:
		return intKind{16, false}, true
	case types.Uint32:
		return intKind{32, false}, true
	}
	return intKind{}, false
}

func (k intKind) norm(v int64) int64 {
	if k.w >= 64 {
		return v
	}
	sh := uint(64 - k.w)
	if k.signed {
		return v << sh >> sh
	}
	return int64(uint64(v) << sh >> sh)
}

func isFloat(t types.Type) bool {
	b, ok := t.Underlying().(*types.Basic)
	return ok && b.Info()&types.IsFloat != 0
}

func isString(t types.Type) bool {
	b, ok := t.Underlying().(*types.Basic)
	return ok && b.Info()&types.IsString != 0
}

func isBoolT(t types.Type) bool {
	b, ok := t.Underlying().(*types.Basic)
	return ok && b.Info()&types.IsBoolean != 0
}

// ---------- zero values ----------

func zero(t types.Type) Value {
	switch t := t.(type) {
	case *types.Basic:
		if t.Kind() == types.UntypedNil {
			panic(engineError("untyped nil has no zero value"))
		}
		if t.Info()&types.IsUntyped != 0 {
			t = types.Default(t).(*types.Basic)
		}
		switch {
		case t.Info()&types.IsBoolean != 0:
			return false
		case t.Info()&types.IsInteger != 0:
			return int64(0)
		case t.Info()&types.IsFloat != 0:
			return float64(0)
		case t.Info()&types.IsString != 0:
			return ""
		case t.Kind() == types.UnsafePointer:
			return UPtr{}
		}
		panic(unsupported("zero value of " + t.String()))
	case *types.Pointer:
		return (*Value)(nil)
	case *types.Array:
		a := make(Array, t.Len())
		for i := range a {
			a[i] = zero(t.Elem())
		}
		return a
	case *types.Named:
		return zero(t.Underlying())
	case *types.Alias:
		return zero(types.Unalias(t))
	case *types.Interface:
		return iface{}
	case *types.Slice:
		return []Value(nil)
	case *types.Struct:
		s := make(Struct, t.NumFields())
		for i := range s {
			s[i] = zero(t.Field(i).Type())
		}
		return s
	case *types.Tuple:
		if t.Len() == 1 {
			return zero(t.At(0).Type())
		}
		s := make(tuple, t.Len())
		for i := range s {
			s[i] = zero(t.At(i).Type())
		}
		return s
	case *types.Chan:
		return (*chanVal)(nil) // channel operations themselves are unsupported
	case *types.Map:
		return (*Map)(nil)
	case *types.Signature:
		return (*ssa.Function)(nil)
	case *types.TypeParam:
		panic(engineError("zero of type parameter " + t.String() + " (generic body not instantiated)"))
	}
	panic(engineError(fmt.Sprint("zero: unexpected ", t)))
}

// load returns a copy of the value of type T stored in *addr.
func load(T types.Type, addr *Value) Value {
	switch T := T.Underlying().(type) {
	case *types.Struct:
		v := (*addr).(Struct)
		a := make(Struct, len(v))
		for i := range a {
			a[i] = load(T.Field(i).Type(), &v[i])
		}
		return a
	case *types.Array:
		v := (*addr).(Array)
		a := make(Array, len(v))
		for i := range a {
			a[i] = load(T.Elem(), &v[i])
		}
		return a
	default:
		return *addr
	}
}

// store stores v of type T into *addr, keeping interior pointers valid.
func store(T types.Type, addr *Value, v Value) {
	switch T := T.Underlying().(type) {
	case *types.Struct:
		lhs := (*addr).(Struct)
		rhs := v.(Struct)
		for i := range lhs {
			store(T.Field(i).Type(), &lhs[i], rhs[i])
		}
	case *types.Array:
		lhs := (*addr).(Array)
		rhs := v.(Array)
		for i := range lhs {
			store(T.Elem(), &lhs[i], rhs[i])
		}
	default:
		*addr = v
	}
}

// copyVal makes an unaliased copy of an aggregate value.
func copyVal(v Value) Value {
	switch v := v.(type) {
	case Struct:
		a := make(Struct, len(v))
		for i := range v {
			a[i] = copyVal(v[i])
		}
		return a
	case Array:
		a := make(Array, len(v))
		for i := range v {
			a[i] = copyVal(v[i])
		}
		return a
	}
	return v
}

// ---------- strings ----------

func strLen(v Value) int {
	switch s := v.(type) {
	case string:
		return len(s)
	case *SymStr:
		return len(s.b)
	}
	panic(engineError(fmt.Sprintf("strLen of %T", v)))
}

func strBytes(v Value) []Value {
	switch s := v.(type) {
	case string:
		out := make([]Value, len(s))
		for i := 0; i < len(s); i++ {
			out[i] = int64(s[i])
		}
		return out
	case *SymStr:
		return s.b
	}
	panic(engineError(fmt.Sprintf("strBytes of %T", v)))
}

// mkStr builds a string value from byte values, collapsing to a Go string
// when every byte is concrete.
func mkStr(b []Value) Value {
	conc := true
	for _, x := range b {
		if _, ok := x.(int64); !ok {
			conc = false
			break
		}
	}
	if conc {
		var sb strings.Builder
		for _, x := range b {
			sb.WriteByte(byte(x.(int64)))
		}
		return sb.String()
	}
	cp := make([]Value, len(b))
	copy(cp, b)
	return &SymStr{b: cp}
}

func isScalar(v Value) bool {
	switch v.(type) {
	case bool, int64, *Term:
		return true
	}
	return false
}

// describe renders a value for diagnostics and evidence samples.
func describe(v Value) string {
	switch v := v.(type) {
	case nil:
		return "<nil>"
	case bool, int64, float64:
		return fmt.Sprint(v)
	case string:
		return fmt.Sprintf("%q", v)
	case *Term:
		return v.String()
	case *SymStr:
		var parts []string
		for _, b := range v.b {
			parts = append(parts, describe(b))
		}
		return "str[" + strings.Join(parts, " ") + "]"
	case Struct:
		var parts []string
		for _, b := range v {
			parts = append(parts, describe(b))
		}
		return "{" + strings.Join(parts, " ") + "}"
	case Array:
		var parts []string
		for _, b := range v {
			parts = append(parts, describe(b))
		}
		return "[" + strings.Join(parts, " ") + "]"
	case []Value:
		var parts []string
		for _, b := range v {
			parts = append(parts, describe(b))
		}
		return "[]{" + strings.Join(parts, " ") + "}"
	case tuple:
		var parts []string
		for _, b := range v {
			parts = append(parts, describe(b))
		}
		return "(" + strings.Join(parts, ", ") + ")"
	case iface:
		if v.t == nil {
			return "nil-iface"
		}
		return "iface(" + v.t.String() + ":" + describe(v.v) + ")"
	case *Value:
		if v == nil {
			return "nil"
		}
		return fmt.Sprintf("&%p", v)
	case *Map:
		if v == nil {
			return "nil-map"
		}
		var parts []string
		for _, e := range v.entries {
			if !e.dead {
				parts = append(parts, describe(e.k)+":"+describe(e.v))
			}
		}
		return "map[" + strings.Join(parts, " ") + "]"
	case *closure:
		return "closure(" + v.Fn.String() + ")"
	case *ssa.Function:
		if v == nil {
			return "nil-func"
		}
		return "func(" + v.String() + ")"
	}
	return fmt.Sprintf("%T", v)
}
