package main

import (
	"encoding/json"
	"fmt"
	"math/rand"
	"os"
	"regexp"
	"sort"
	"strings"
	"sync"
	"time"

	"golang.org/x/tools/go/ssa"
)

// SourcePatch is either a literal replacement (Old must occur exactly once) or,
// when Scope is set, a regular-expression replacement inside one function: the
// scope starts at the single occurrence of Scope and ends at the next "\n}\n".
type SourcePatch struct {
	File  string `json:"file"`
	Old   string `json:"old,omitempty"`
	New   string `json:"new,omitempty"`
	Scope string `json:"scope,omitempty"`
	Re    string `json:"re,omitempty"`
	Repl  string `json:"repl,omitempty"`
}

func (p SourcePatch) apply(src string) (string, error) {
	if p.Scope == "" {
		if n := strings.Count(src, p.Old); n != 1 {
			return "", fmt.Errorf("patch for %s does not apply (old text found %d times)", p.File, n)
		}
		return strings.Replace(src, p.Old, p.New, 1), nil
	}
	if n := strings.Count(src, p.Scope); n != 1 {
		return "", fmt.Errorf("patch for %s does not apply (scope found %d times)", p.File, n)
	}
	re, err := regexp.Compile(p.Re)
	if err != nil {
		return "", err
	}
	a := strings.Index(src, p.Scope)
	e := strings.Index(src[a:], "\n}\n")
	if e < 0 {
		return "", fmt.Errorf("patch for %s does not apply (scope has no end)", p.File)
	}
	body := src[a : a+e]
	nb := re.ReplaceAllString(body, p.Repl)
	if nb == body {
		return "", fmt.Errorf("patch for %s does not apply (pattern not found in scope)", p.File)
	}
	return src[:a] + nb + src[a+e:], nil
}

type JobSpec struct {
	Entry    string           `json:"entry"`
	Cases    map[string][]int `json:"cases"`
	MapOrder string           `json:"map_order,omitempty"`
	MaxPaths int              `json:"max_paths,omitempty"`
	MaxSteps int              `json:"max_steps,omitempty"`
}

type CheckSpec struct {
	Property      string               `json:"property"`
	Package       string               `json:"package"`
	PackageName   string               `json:"package_name,omitempty"`
	HarnessFiles  []string             `json:"harness_files"`
	WhiteboxFiles []string             `json:"whitebox_files,omitempty"` // subset of harness_files that touches unexported state
	Jobs          map[string][]JobSpec `json:"jobs"`
	RequiredCover []string             `json:"required_cover"`
	CrossEvery    map[string]int       `json:"cross_every,omitempty"`
	MaxWallS      map[string]int       `json:"max_wall_s,omitempty"`
	Selftest      []string             `json:"selftest"`
	QueryTimeoutS map[string]int       `json:"query_timeout_s"`
	BoundsText    map[string]string    `json:"bounds_text"`
	OutsideBounds []string             `json:"outside_bounds"`
	Instantiation []string             `json:"instantiations"`
	Assumptions   []string             `json:"assumptions"`
	Units         []*CheckSpec         `json:"units,omitempty"` // additional packages for the same property
}

type Job struct {
	id       int
	entry    *ssa.Function
	name     string
	cases    map[string]int
	mapOrder string
	maxPaths int
	maxSteps int
	// results
	mu        sync.Mutex
	paths     map[outcomeKind]int
	npaths    int
	stopped   bool
	firstMsgs map[outcomeKind]string
}

func (j *Job) String() string {
	var ks []string
	for k := range j.cases {
		ks = append(ks, k)
	}
	sort.Strings(ks)
	var parts []string
	for _, k := range ks {
		parts = append(parts, fmt.Sprintf("%s=%d", k, j.cases[k]))
	}
	return j.name + "(" + strings.Join(parts, ",") + ")"
}

type workItem struct {
	job    *Job
	prefix []decision
	seed   map[string]uint64 // a model of the prefix's path condition, by variable name
}

type Worker struct {
	id     int
	prog   *Program
	tctx   *TermCtx
	solver *Solver
	run    *Run
}

type sample struct {
	Job       string   `json:"job"`
	Decisions string   `json:"decisions"`
	Outcome   string   `json:"outcome"`
	PC        []string `json:"path_condition,omitempty"`
	Witness   []string `json:"one_satisfying_input,omitempty"`
	Out       []string `json:"trace,omitempty"`
}

type Run struct {
	prog       *Program
	spec       *CheckSpec
	mu         sync.Mutex
	cond       *sync.Cond
	stack      []*workItem
	active     int
	done       bool
	violations []*violation
	maxViol    int
	// aggregated counters
	paths        map[outcomeKind]int
	transitions  int
	nAssert      int
	nDischarged  int
	nConcrete    int
	cover        map[string]int
	funcs        map[string]bool
	intrinsics   map[string]bool
	samples      []sample
	msgs         map[string]int
	notes        map[string]int // dynamic bounds applied (not inconclusive): reported in the evidence
	queries      int
	solverTime   time.Duration
	satN, unsatN int
	unknownN     int
	outTraces    map[string][]string // job -> vOut log (self-test)
	solverKind   string
	timeout      time.Duration
	dumpDir      string
	dumpEvery    int
	dumpFiles    []string
	dumpMax      int
	dumpResults  []string
	deadline     time.Time
	seed         int64
}

func (w *Worker) push(it *workItem) {
	r := w.run
	r.mu.Lock()
	r.stack = append(r.stack, it)
	r.mu.Unlock()
	r.cond.Signal()
}

func (r *Run) pop() *workItem {
	r.mu.Lock()
	defer r.mu.Unlock()
	for {
		if r.done {
			return nil
		}
		for len(r.stack) > 0 {
			it := r.stack[len(r.stack)-1]
			r.stack = r.stack[:len(r.stack)-1]
			if it.job.stopped {
				continue
			}
			r.active++
			return it
		}
		if r.active == 0 {
			r.done = true
			r.cond.Broadcast()
			return nil
		}
		r.cond.Wait()
	}
}

func (r *Run) finish(w *Worker, it *workItem, res pathResult) {
	r.mu.Lock()
	defer r.mu.Unlock()
	r.active--
	j := it.job
	r.paths[res.kind]++
	j.paths[res.kind]++
	j.npaths++
	if j.maxPaths > 0 && j.npaths >= j.maxPaths && !j.stopped {
		j.stopped = true
		r.msgs[fmt.Sprintf("inconclusive: %s exceeded its path budget of %d", j, j.maxPaths)]++
		r.paths[outInconclusive]++
	}
	if !r.deadline.IsZero() && time.Now().After(r.deadline) && !r.done {
		r.msgs["inconclusive: wall-clock budget of the run exhausted"]++
		r.paths[outInconclusive]++
		r.done = true
	}
	ex := res.ex
	r.transitions += len(res.decisions) - len(it.prefix) + 1
	r.nAssert += ex.nAssert
	r.nDischarged += ex.nDischarged
	r.nConcrete += ex.nConcrete
	if res.kind == outOK || res.kind == outViolation {
		for c := range ex.cover {
			r.cover[c]++
		}
	}
	for f := range ex.funcs {
		name := f.String()
		if !r.funcs[name] {
			r.funcs[name] = true
		}
	}
	for n := range ex.intrinsicsUsed {
		r.intrinsics[n] = true
	}
	if res.kind == outPruned && strings.HasPrefix(res.msg, "bound:") {
		r.notes[res.msg]++
	}
	if res.kind != outOK && res.kind != outPruned && res.kind != outViolation {
		m := res.kind.String() + ": " + firstLine(res.msg)
		r.msgs[m]++
		if r.msgs[m] == 1 && res.kind == outEngineError {
			fmt.Fprintf(os.Stderr, "[%s] %s\n%s\n", j, m, res.msg)
		}
	}
	if len(ex.outLog) > 0 && res.kind == outOK {
		r.outTraces[j.String()] = ex.outLog
	}
	if res.kind == outViolation && res.viol != nil {
		r.violations = append(r.violations, res.viol)
		if len(r.violations) >= r.maxViol {
			r.done = true
		}
	}
	if len(r.samples) < 6 && (res.kind == outOK || res.kind == outViolation) && (len(ex.pc) >= 2 || len(r.samples) == 0 && r.paths[res.kind] > 20) && (r.paths[res.kind]%97 == 1 || len(r.samples) < 2) {
		s := sample{Job: j.String(), Decisions: decString(res.decisions), Outcome: res.kind.String()}
		for i, rv := range ex.vals {
			if i >= 16 {
				break
			}
			val := "unconstrained"
			if rv.T.IsConst() {
				val = fmt.Sprint(int64(rv.T.Val))
			} else if ex.modelOK {
				if v, ok := ex.model[rv.T]; ok {
					val = fmt.Sprint(int64(v))
				}
			}
			s.Witness = append(s.Witness, fmt.Sprintf("%s(%s)=%s", rv.Name, rv.Kind, val))
		}
		for i, c := range ex.pc {
			if i >= 12 {
				s.PC = append(s.PC, fmt.Sprintf("… %d more", len(ex.pc)-i))
				break
			}
			s.PC = append(s.PC, c.String())
		}
		if len(ex.outLog) > 0 {
			s.Out = ex.outLog
		}
		r.samples = append(r.samples, s)
	}
	r.cond.Broadcast()
}

func firstLine(s string) string {
	if i := strings.IndexByte(s, '\n'); i >= 0 {
		return s[:i]
	}
	return s
}

func decString(ds []decision) string {
	var sb strings.Builder
	for _, d := range ds {
		switch d.K {
		case 'b':
			if d.F {
				if d.V == 1 {
					sb.WriteByte('t')
				} else {
					sb.WriteByte('f')
				}
			} else if d.V == 1 {
				sb.WriteByte('T')
			} else {
				sb.WriteByte('F')
			}
		case 'c':
			fmt.Fprintf(&sb, "c%d", d.V)
		case 'v':
			fmt.Fprintf(&sb, "v%d", d.V)
		}
	}
	return sb.String()
}

func expandJobs(prog *Program, specs []JobSpec) ([]*Job, error) {
	var jobs []*Job
	for _, js := range specs {
		fn := prog.target.Func(js.Entry)
		if fn == nil {
			return nil, &staleError{"harness entry not found: " + js.Entry}
		}
		var keys []string
		for k := range js.Cases {
			keys = append(keys, k)
		}
		sort.Strings(keys)
		combos := []map[string]int{{}}
		for _, k := range keys {
			var next []map[string]int
			for _, c := range combos {
				for _, v := range js.Cases[k] {
					m := map[string]int{}
					for kk, vv := range c {
						m[kk] = vv
					}
					m[k] = v
					next = append(next, m)
				}
			}
			combos = next
		}
		for _, c := range combos {
			jobs = append(jobs, &Job{id: len(jobs), entry: fn, name: js.Entry, cases: c, mapOrder: js.MapOrder,
				maxPaths: js.MaxPaths, maxSteps: stepsOr(js.MaxSteps), paths: map[outcomeKind]int{}, firstMsgs: map[outcomeKind]string{}})
		}
	}
	return jobs, nil
}

func newRun(prog *Program, spec *CheckSpec, solverKind string, timeout time.Duration) *Run {
	r := &Run{prog: prog, spec: spec, paths: map[outcomeKind]int{}, cover: map[string]int{}, funcs: map[string]bool{},
		intrinsics: map[string]bool{}, msgs: map[string]int{}, notes: map[string]int{}, outTraces: map[string][]string{}, maxViol: 3,
		solverKind: solverKind, timeout: timeout}
	r.cond = sync.NewCond(&r.mu)
	return r
}

func (r *Run) execute(jobs []*Job, nworkers int) error {
	// VERIF_SEED permutes the job order (it never changes which paths are explored)
	if r.seed != 0 {
		rng := rand.New(rand.NewSource(r.seed))
		rng.Shuffle(len(jobs), func(i, j int) { jobs[i], jobs[j] = jobs[j], jobs[i] })
	}
	for i := len(jobs) - 1; i >= 0; i-- {
		r.stack = append(r.stack, &workItem{job: jobs[i]})
	}
	var wg sync.WaitGroup
	errs := make(chan error, nworkers)
	for i := 0; i < nworkers; i++ {
		wg.Add(1)
		go func(id int) {
			defer wg.Done()
			tctx := NewTermCtx()
			s, err := NewSolver(r.solverKind, tctx, r.timeout)
			if err == nil && r.seed != 0 {
				s.setSeed(r.seed)
			}
			if err != nil {
				errs <- err
				r.mu.Lock()
				r.done = true
				r.cond.Broadcast()
				r.mu.Unlock()
				return
			}
			if r.dumpEvery > 0 {
				s.dump = &queryDump{every: r.dumpEvery, dir: r.dumpDir, max: r.dumpMax, tag: id}
			}
			w := &Worker{id: id, prog: r.prog, tctx: tctx, solver: s, run: r}
			for {
				it := r.pop()
				if it == nil {
					break
				}
				res := w.runPath(it)
				r.finish(w, it, res)
			}
			s.Close()
			r.mu.Lock()
			r.queries += s.Queries
			r.solverTime += s.Time
			r.satN += s.SatN
			r.unsatN += s.UnsatN
			r.unknownN += s.UnknownN
			if s.dump != nil {
				nres := len(s.dump.results)
				r.dumpFiles = append(r.dumpFiles, s.dump.files[:nres]...)
				r.dumpResults = append(r.dumpResults, s.dump.results...)
			}
			r.mu.Unlock()
		}(i)
	}
	wg.Wait()
	select {
	case err := <-errs:
		return err
	default:
	}
	return nil
}

func readSpec(path string) (*CheckSpec, error) {
	b, err := os.ReadFile(path)
	if err != nil {
		return nil, err
	}
	var s CheckSpec
	if err := json.Unmarshal(b, &s); err != nil {
		return nil, fmt.Errorf("%s: %v", path, err)
	}
	return &s, nil
}

func stepsOr(n int) int {
	if n > 0 {
		return n
	}
	return maxSteps
}
