package main

// Intrinsics: the harness run-time shim (v* functions) and models for
// standard-library functions that have no Go body or are out of reach. Every
// intrinsic used on a path is recorded and listed in the evidence as part of
// the trusted base.

import (
	"fmt"
	"go/token"
	"go/types"
	"math"
	"math/big"
	mbits "math/bits"
	"path/filepath"
	"strconv"
	"strings"

	"golang.org/x/tools/go/ssa"
)

type intrinsicFn func(ex *Exec, caller *frame, fn *ssa.Function, args []Value) (Value, bool)

func (p *Program) intrinsic(fn *ssa.Function) intrinsicFn {
	if in, ok := p.intr.Load(fn); ok {
		return in.(intrinsicFn)
	}
	var in intrinsicFn
	if fn.Pkg != nil && fn.Parent() == nil && fn.Signature.Recv() == nil && strings.HasPrefix(fn.Name(), "v") {
		if f := p.ssa.Fset.Position(fn.Pos()).Filename; filepath.Base(f) == shimFileName {
			in = shimIntrinsics[fn.Name()]
			if in == nil {
				in = func(ex *Exec, caller *frame, fn *ssa.Function, args []Value) (Value, bool) {
					panic(engineError("shim function without engine implementation: " + fn.Name()))
				}
			}
		}
	}
	if in == nil {
		name := fn.String()
		if o := fn.Origin(); o != nil {
			name = o.String()
		}
		if f, ok := libIntrinsics[name]; ok {
			in = func(ex *Exec, caller *frame, fn *ssa.Function, args []Value) (Value, bool) {
				r, handled := f(ex, caller, fn, args)
				if handled {
					ex.intrinsicsUsed[name] = true
				}
				return r, handled
			}
		}
	}
	p.intr.Store(fn, in)
	return in
}

func strArg(v Value) string {
	s, ok := v.(string)
	if !ok {
		panic(engineError(fmt.Sprintf("harness label must be a constant string, got %T", v)))
	}
	return s
}

var shimIntrinsics map[string]intrinsicFn

func init() {
	shimIntrinsics = map[string]intrinsicFn{
		"vInt": func(ex *Exec, _ *frame, _ *ssa.Function, a []Value) (Value, bool) {
			return ex.newVar(strArg(a[0]), "int", bvSort(64)), true
		},
		"vOrd": func(ex *Exec, _ *frame, _ *ssa.Function, a []Value) (Value, bool) {
			return ex.newVar(strArg(a[0]), "ord", sortInt), true
		},
		"vByte": func(ex *Exec, _ *frame, _ *ssa.Function, a []Value) (Value, bool) {
			return ex.newVar(strArg(a[0]), "byte", bvSort(8)), true
		},
		"vUint64": func(ex *Exec, _ *frame, _ *ssa.Function, a []Value) (Value, bool) {
			return ex.newVar(strArg(a[0]), "uint64", bvSort(64)), true
		},
		"vBool": func(ex *Exec, _ *frame, _ *ssa.Function, a []Value) (Value, bool) {
			return ex.newVar(strArg(a[0]), "bool", sortBool), true
		},
		"vRange": func(ex *Exec, _ *frame, _ *ssa.Function, a []Value) (Value, bool) {
			// vRange(name, lo, hi): fresh int in [lo, hi]
			v := ex.newVar(strArg(a[0]), "int", bvSort(64))
			k := intKind{64, true}
			lo, hi := ex.intTerm(a[1], k), ex.intTerm(a[2], k)
			ex.assume(ex.boolVal(ex.tc.And(ex.tc.Le(lo, v, true), ex.tc.Le(v, hi, true))), "range")
			return v, true
		},
		"vChoice": func(ex *Exec, _ *frame, _ *ssa.Function, a []Value) (Value, bool) {
			n := ex.concInt(a[1], intKind{64, true})
			c := ex.choice(int(n))
			ex.vals = append(ex.vals, replayValue{Name: strArg(a[0]), Kind: "choice", T: ex.tc.BV(64, uint64(c))})
			return int64(c), true
		},
		"vCase": func(ex *Exec, _ *frame, _ *ssa.Function, a []Value) (Value, bool) {
			v, ok := ex.job.cases[strArg(a[0])]
			if !ok {
				panic(engineError("vCase: no case parameter " + strArg(a[0])))
			}
			return int64(v), true
		},
		"vConcrete": func(ex *Exec, _ *frame, _ *ssa.Function, a []Value) (Value, bool) {
			return ex.concInt(a[0], intKind{64, true}), true
		},
		"vAssume": func(ex *Exec, _ *frame, _ *ssa.Function, a []Value) (Value, bool) {
			ex.assume(a[0], "")
			return nil, true
		},
		"vAssert": func(ex *Exec, _ *frame, _ *ssa.Function, a []Value) (Value, bool) {
			ex.assert(a[0], strArg(a[1]))
			return nil, true
		},
		"vInvariant": func(ex *Exec, _ *frame, _ *ssa.Function, a []Value) (Value, bool) {
			// a white-box representation invariant that closes an inductive step: if it can
			// fail, the induction is not closed and the run is inconclusive, not a violation
			ex.flush()
			ok := true
			switch c := a[0].(type) {
			case bool:
				ok = c
			case *Term:
				if v, known := ex.known(c); known {
					ok = v
				} else if !ex.inPrefix() {
					r, _ := ex.check(ex.tc.Not(c))
					ok = r == Unsat
					if ok {
						ex.learn(c, true)
					}
				}
			}
			if !ok {
				panic(abortPath{outInconclusive, "white-box invariant not preserved, the inductive step is not closed: " + strArg(a[1])})
			}
			return nil, true
		},
		"vAll": func(ex *Exec, _ *frame, _ *ssa.Function, a []Value) (Value, bool) {
			var ts []*Term
			for _, v := range a[0].([]Value) {
				ts = append(ts, ex.boolTerm(v))
			}
			return ex.boolVal(ex.tc.And(ts...)), true
		},
		"vAny": func(ex *Exec, _ *frame, _ *ssa.Function, a []Value) (Value, bool) {
			var ts []*Term
			for _, v := range a[0].([]Value) {
				ts = append(ts, ex.boolTerm(v))
			}
			return ex.boolVal(ex.tc.Or(ts...)), true
		},
		"vImplies": func(ex *Exec, _ *frame, _ *ssa.Function, a []Value) (Value, bool) {
			return ex.boolVal(ex.tc.Implies(ex.boolTerm(a[0]), ex.boolTerm(a[1]))), true
		},
		"vIte": func(ex *Exec, _ *frame, fn *ssa.Function, a []Value) (Value, bool) {
			return ex.iteValue(fn.Signature.Params().At(1).Type(), a[0], a[1], a[2]), true
		},
		"vIteB": func(ex *Exec, _ *frame, fn *ssa.Function, a []Value) (Value, bool) {
			return ex.iteValue(fn.Signature.Params().At(1).Type(), a[0], a[1], a[2]), true
		},
		"vCover": func(ex *Exec, _ *frame, _ *ssa.Function, a []Value) (Value, bool) {
			ex.cover[strArg(a[0])] = true
			return nil, true
		},
		"vPanics": func(ex *Exec, caller *frame, _ *ssa.Function, a []Value) (r Value, h bool) {
			h = true
			ex.inPanics++
			depth, stack := ex.depth, len(ex.callStack)
			defer func() {
				ex.inPanics--
				if p := recover(); p != nil {
					ex.depth, ex.callStack = depth, ex.callStack[:stack]
					switch p := p.(type) {
					case targetPanic:
						r = tuple{true, panicMessage(ex, p.v)}
					case runtimeErr:
						r = tuple{true, "runtime error: " + p.msg}
					default:
						panic(p)
					}
				}
			}()
			ex.call(caller, a[0], nil)
			return tuple{false, ""}, true
		},
		"vOut": func(ex *Exec, _ *frame, _ *ssa.Function, a []Value) (Value, bool) {
			var parts []string
			for _, v := range a[1].([]Value) {
				parts = append(parts, ex.outString(v.(iface).v))
			}
			ex.outLog = append(ex.outLog, strArg(a[0])+": "+strings.Join(parts, " "))
			return nil, true
		},
		"vDepthBoundOK": func(ex *Exec, _ *frame, _ *ssa.Function, a []Value) (Value, bool) {
			k := intKind{64, true}
			return depthBoundOK(ex.concInt(a[0], k), ex.concInt(a[1], k), ex.concInt(a[2], k)), true
		},
		"vIsReplay": func(ex *Exec, _ *frame, _ *ssa.Function, a []Value) (Value, bool) {
			return false, true
		},
		"vStamp": func(ex *Exec, _ *frame, _ *ssa.Function, a []Value) (Value, bool) {
			return ex.stamp(), true
		},
		"vPar": func(ex *Exec, caller *frame, _ *ssa.Function, a []Value) (Value, bool) {
			ex.runThreads(caller, a[0].([]Value))
			return nil, true
		},
	}
}

// depthBoundOK reports 2000^(d-1) <= p*(1000+beta)^(d-1), i.e. d <= log_{2000/(1000+beta)}(p) + 1.
func depthBoundOK(beta, p, d int64) bool {
	if d <= 1 {
		return true
	}
	if p <= 0 {
		return false
	}
	l := new(big.Int).Exp(big.NewInt(2000), big.NewInt(d-1), nil)
	r := new(big.Int).Exp(big.NewInt(1000+beta), big.NewInt(d-1), nil)
	r.Mul(r, big.NewInt(p))
	return l.Cmp(r) <= 0
}

// outString renders a value for vOut traces: concrete data only.
func (ex *Exec) outString(v Value) string {
	switch v := v.(type) {
	case bool:
		return strconv.FormatBool(v)
	case int64:
		return strconv.FormatInt(v, 10)
	case string:
		return strconv.Quote(v)
	case float64:
		return strconv.FormatFloat(v, 'g', -1, 64)
	case []Value:
		parts := make([]string, len(v))
		for i, x := range v {
			parts[i] = ex.outString(x)
		}
		return "[" + strings.Join(parts, " ") + "]"
	case Struct:
		parts := make([]string, len(v))
		for i, x := range v {
			parts[i] = ex.outString(x)
		}
		return "{" + strings.Join(parts, " ") + "}"
	case Array:
		parts := make([]string, len(v))
		for i, x := range v {
			parts[i] = ex.outString(x)
		}
		return "[" + strings.Join(parts, " ") + "]"
	case iface:
		if v.t == nil {
			return "<nil>"
		}
		return ex.outString(v.v)
	case *Term:
		return "sym"
	case *SymStr:
		return "symstr"
	case *Value:
		if v == nil {
			return "nil"
		}
		return "ptr"
	}
	return fmt.Sprintf("%T", v)
}

// ---------- library intrinsics ----------

var libIntrinsics map[string]func(ex *Exec, caller *frame, fn *ssa.Function, args []Value) (Value, bool)

func init() {
	libIntrinsics = map[string]func(ex *Exec, caller *frame, fn *ssa.Function, args []Value) (Value, bool){
		"math.Log": func(ex *Exec, _ *frame, _ *ssa.Function, a []Value) (Value, bool) {
			return math.Log(a[0].(float64)), true
		},
		"math.Floor": func(ex *Exec, _ *frame, _ *ssa.Function, a []Value) (Value, bool) {
			return math.Floor(a[0].(float64)), true
		},
		"math.Ceil": func(ex *Exec, _ *frame, _ *ssa.Function, a []Value) (Value, bool) {
			return math.Ceil(a[0].(float64)), true
		},
		"math.Log2": func(ex *Exec, _ *frame, _ *ssa.Function, a []Value) (Value, bool) {
			return math.Log2(a[0].(float64)), true
		},
		"(*sync.Mutex).Lock":   mutexLock,
		"(*sync.Mutex).Unlock": mutexUnlock,
		"(*sync.RWMutex).Lock":   mutexLock,
		"(*sync.RWMutex).Unlock": mutexUnlock,
		"(*sync.RWMutex).RLock": func(ex *Exec, _ *frame, _ *ssa.Function, a []Value) (Value, bool) {
			p := a[0].(*Value)
			if ex.threads != nil {
				ex.threads.rlock(ex, p)
				return nil, true
			}
			if ex.mutexHeld[p] {
				ex.fail("deadlock", "sync.RWMutex read-locked while write-locked by the same sequential caller", "")
			}
			ex.rlockHeld[p]++
			return nil, true
		},
		"(*sync.RWMutex).RUnlock": func(ex *Exec, _ *frame, _ *ssa.Function, a []Value) (Value, bool) {
			p := a[0].(*Value)
			if ex.threads != nil {
				ex.threads.runlock(ex, p)
				return nil, true
			}
			if ex.rlockHeld[p] == 0 {
				ex.fail("panic", "sync: RUnlock of unlocked RWMutex", "")
			}
			ex.rlockHeld[p]--
			return nil, true
		},
		"sync/atomic.LoadInt64":  atomicLoad,
		"sync/atomic.LoadInt32":  atomicLoad,
		"sync/atomic.LoadUint64": atomicLoad,
		"sync/atomic.LoadUint32": atomicLoad,
		"sync/atomic.StoreInt64": atomicStore,
		"sync/atomic.StoreInt32": atomicStore,
		"sync/atomic.StoreUint64": atomicStore,
		"sync/atomic.StoreUint32": atomicStore,
		"sync/atomic.AddInt64":   atomicAdd,
		"sync/atomic.AddInt32":   atomicAdd,
		"sync/atomic.AddUint64":  atomicAdd,
		"sync/atomic.AddUint32":  atomicAdd,
		"sync/atomic.CompareAndSwapInt64": atomicCAS,
		"sync/atomic.CompareAndSwapInt32": atomicCAS,
		"sync/atomic.SwapInt64": atomicSwap,
		"sync/atomic.SwapInt32": atomicSwap,
		"slices.overlaps": func(ex *Exec, _ *frame, _ *ssa.Function, a []Value) (Value, bool) {
			// the real body compares addresses; here: do the two windows share a cell?
			x, y := a[0].([]Value), a[1].([]Value)
			if len(x) == 0 || len(y) == 0 {
				return false, true
			}
			for i := range y {
				if &y[i] == &x[0] {
					return true, true
				}
			}
			for i := range x {
				if &x[i] == &y[0] {
					return true, true
				}
			}
			return false, true
		},
		// package time: the monotonic clock start is a constant (no check reads
		// the clock), and the process-local zone is modelled as UTC
		"time.runtimeNano": func(ex *Exec, _ *frame, _ *ssa.Function, a []Value) (Value, bool) { return int64(1), true },
		"(*time.Location).get": func(ex *Exec, _ *frame, fn *ssa.Function, a []Value) (Value, bool) {
			l, _ := a[0].(*Value)
			pkg := fn.Pkg
			utc := ex.global(pkg.Members["utcLoc"].(*ssa.Global))
			if l == nil || l == ex.global(pkg.Members["localLoc"].(*ssa.Global)) {
				return utc, true
			}
			return l, true
		},
		"math/bits.TrailingZeros64": bitsIntrinsic(64, 0),
		"math/bits.TrailingZeros":   bitsIntrinsic(64, 0),
		"math/bits.TrailingZeros32": bitsIntrinsic(32, 0),
		"math/bits.TrailingZeros16": bitsIntrinsic(16, 0),
		"math/bits.TrailingZeros8":  bitsIntrinsic(8, 0),
		"math/bits.LeadingZeros64":  bitsIntrinsic(64, 1),
		"math/bits.LeadingZeros":    bitsIntrinsic(64, 1),
		"math/bits.LeadingZeros32":  bitsIntrinsic(32, 1),
		"math/bits.LeadingZeros16":  bitsIntrinsic(16, 1),
		"math/bits.LeadingZeros8":   bitsIntrinsic(8, 1),
		"math/bits.Len64":           bitsIntrinsic(64, 2),
		"math/bits.Len":             bitsIntrinsic(64, 2),
		"math/bits.Len32":           bitsIntrinsic(32, 2),
		"math/bits.Len16":           bitsIntrinsic(16, 2),
		"math/bits.Len8":            bitsIntrinsic(8, 2),
		"crypto/rand.Read": func(ex *Exec, _ *frame, _ *ssa.Function, a []Value) (Value, bool) {
			// entropy is never used by the checks (the counter's source is replaced): zeros
			b := a[0].([]Value)
			for i := range b {
				b[i] = int64(0)
			}
			return tuple{int64(len(b)), iface{}}, true
		},
		"math/rand/v2.NewChaCha8": func(ex *Exec, _ *frame, fn *ssa.Function, a []Value) (Value, bool) {
			cell := zero(deref(fn.Signature.Results().At(0).Type()))
			return &cell, true
		},
		"(*sync.Pool).Get": func(ex *Exec, caller *frame, fn *ssa.Function, a []Value) (Value, bool) {
			p := a[0].(*Value)
			if l := ex.pool[p]; len(l) > 0 {
				v := l[len(l)-1]
				ex.pool[p] = l[:len(l)-1]
				return v, true
			}
			// call New if set: field named "New"
			st := deref(fn.Signature.Recv().Type()).Underlying().(*types.Struct)
			for i := 0; i < st.NumFields(); i++ {
				if st.Field(i).Name() == "New" {
					nf := (*p).(Struct)[i]
					if isNilFunc(nf) {
						return iface{}, true
					}
					return ex.call(caller, nf, nil), true
				}
			}
			return iface{}, true
		},
		"(*sync.Pool).Put": func(ex *Exec, _ *frame, _ *ssa.Function, a []Value) (Value, bool) {
			p := a[0].(*Value)
			// an object handed back while it is still in the pool would later be
			// given to two users at once: a misuse no sequential run shows
			if in, ok := a[1].(iface); ok {
				if ptr, ok := in.v.(*Value); ok && ptr != nil {
					for _, o := range ex.pool[p] {
						if oi, ok := o.(iface); ok {
							if op, ok := oi.v.(*Value); ok && op == ptr {
								ex.fail("pool", "sync.Pool: object put back while it is already in the pool", "two later Gets (for instance from two goroutines) would receive the same object")
							}
						}
					}
				}
			}
			ex.pool[p] = append(ex.pool[p], a[1])
			return nil, true
		},
		"internal/bytealg.IndexByteString": func(ex *Exec, _ *frame, _ *ssa.Function, a []Value) (Value, bool) {
			return ex.indexByte(strBytes(a[0]), a[1]), true
		},
		"internal/bytealg.IndexByte": func(ex *Exec, _ *frame, _ *ssa.Function, a []Value) (Value, bool) {
			return ex.indexByte(a[0].([]Value), a[1]), true
		},
		"internal/bytealg.CountString": func(ex *Exec, _ *frame, _ *ssa.Function, a []Value) (Value, bool) {
			return ex.countByte(strBytes(a[0]), a[1]), true
		},
		"internal/bytealg.Count": func(ex *Exec, _ *frame, _ *ssa.Function, a []Value) (Value, bool) {
			return ex.countByte(a[0].([]Value), a[1]), true
		},
		"internal/bytealg.Equal": func(ex *Exec, _ *frame, _ *ssa.Function, a []Value) (Value, bool) {
			return ex.strEq(mkStr(a[0].([]Value)), mkStr(a[1].([]Value))), true
		},
		"bytes.Equal": func(ex *Exec, _ *frame, _ *ssa.Function, a []Value) (Value, bool) {
			return ex.strEq(mkStr(a[0].([]Value)), mkStr(a[1].([]Value))), true
		},
		"internal/bytealg.MakeNoZero": func(ex *Exec, _ *frame, _ *ssa.Function, a []Value) (Value, bool) {
			n := ex.concInt(a[0], intKind{64, true})
			s := make([]Value, n)
			for i := range s {
				s[i] = int64(0)
			}
			return s, true
		},
		"internal/stringslite.Index":     stringIndex,
		"internal/bytealg.IndexString":   stringIndex,
		"strings.Index":                  stringIndex,
		"internal/race.Enabled":          nil,
		"internal/abi.NoEscape":          func(ex *Exec, _ *frame, _ *ssa.Function, a []Value) (Value, bool) { return a[0], true },
		"internal/abi.Escape":            nil,
		"runtime.KeepAlive":              func(ex *Exec, _ *frame, _ *ssa.Function, a []Value) (Value, bool) { return nil, true },
		"(*strings.Builder).copyCheck":   func(ex *Exec, _ *frame, _ *ssa.Function, a []Value) (Value, bool) { return nil, true },
		"unsafe.String":                  nil,
		"fmt.Sprintf":                    fmtSprintf,
		"fmt.Errorf":                     fmtErrorf,
		"fmt.Fprintf":                    fmtFprintf,
		"fmt.Fprint":                     fmtFprint,
		"fmt.Fprintln":                   fmtFprintln,
		"fmt.Sprint":                     fmtSprint,
		"errors.Is":                      errorsIs,
		"maps.clone":                     mapsClone,
		"maps.Clone":                     mapsClone,
		"(*strings.Builder).String":      builderString,
		"strings.Clone":                  func(ex *Exec, _ *frame, _ *ssa.Function, a []Value) (Value, bool) { return a[0], true },
		"unique.Make":                    nil,
		"(*math/rand/v2.Rand).Uint64":    nil,
		"internal/godebug.(*Setting).Value": func(ex *Exec, _ *frame, _ *ssa.Function, a []Value) (Value, bool) { return "", true },
	}
	for k, v := range libIntrinsics {
		if v == nil {
			delete(libIntrinsics, k)
		}
	}
}

func mutexLock(ex *Exec, _ *frame, _ *ssa.Function, a []Value) (Value, bool) {
	p := a[0].(*Value)
	if ex.threads != nil {
		ex.threads.lock(ex, p)
		return nil, true
	}
	if ex.mutexHeld[p] || ex.rlockHeld[p] > 0 {
		ex.fail("deadlock", "sync.Mutex locked twice by the same sequential caller", "")
	}
	ex.mutexHeld[p] = true
	return nil, true
}

func mutexUnlock(ex *Exec, _ *frame, _ *ssa.Function, a []Value) (Value, bool) {
	p := a[0].(*Value)
	if ex.threads != nil {
		ex.threads.unlock(ex, p)
		return nil, true
	}
	if !ex.mutexHeld[p] {
		ex.fail("panic", "sync: unlock of unlocked mutex", "")
	}
	delete(ex.mutexHeld, p)
	return nil, true
}

func (ex *Exec) indexByte(b []Value, c Value) Value {
	bk := intKind{8, false}
	ct := ex.intTerm(c, bk)
	tc := ex.tc
	res := tc.BV(64, ^uint64(0))
	for i := len(b) - 1; i >= 0; i-- {
		res = tc.Ite(tc.Eq(ex.intTerm(b[i], bk), ct), tc.BV(64, uint64(i)), res)
	}
	return ex.intVal(res, intKind{64, true})
}

func (ex *Exec) countByte(b []Value, c Value) Value {
	bk := intKind{8, false}
	ct := ex.intTerm(c, bk)
	tc := ex.tc
	res := tc.BV(64, 0)
	for i := range b {
		res = tc.Add(res, tc.Ite(tc.Eq(ex.intTerm(b[i], bk), ct), tc.BV(64, 1), tc.BV(64, 0)))
	}
	return ex.intVal(res, intKind{64, true})
}

func stringIndex(ex *Exec, _ *frame, _ *ssa.Function, a []Value) (Value, bool) {
	s, ok1 := a[0].(string)
	sub, ok2 := a[1].(string)
	if ok1 && ok2 {
		return int64(strings.Index(s, sub)), true
	}
	// symbolic: first position where all bytes match
	hb, nb := strBytes(a[0]), strBytes(a[1])
	tc := ex.tc
	res := tc.BV(64, ^uint64(0))
	bk := intKind{8, false}
	for i := len(hb) - len(nb); i >= 0; i-- {
		var conj []*Term
		for j := range nb {
			conj = append(conj, tc.Eq(ex.intTerm(hb[i+j], bk), ex.intTerm(nb[j], bk)))
		}
		res = tc.Ite(tc.And(conj...), tc.BV(64, uint64(i)), res)
	}
	return ex.intVal(res, intKind{64, true}), true
}

func builderString(ex *Exec, _ *frame, fn *ssa.Function, a []Value) (Value, bool) {
	// strings.Builder{addr *Builder; buf []byte}
	p := a[0].(*Value)
	if p == nil {
		ex.rtPanic("invalid memory address or nil pointer dereference")
	}
	st := (*p).(Struct)
	buf := st[1].([]Value)
	return mkStr(buf), true
}

func mapsClone(ex *Exec, _ *frame, fn *ssa.Function, a []Value) (Value, bool) {
	var m *Map
	switch x := a[0].(type) {
	case *Map:
		m = x
	case iface:
		m, _ = x.v.(*Map)
	}
	if m == nil {
		if _, isIface := a[0].(iface); isIface {
			return a[0], true
		}
		return (*Map)(nil), true
	}
	ex.noteMap(m, false)
	out := &Map{}
	for _, e := range m.entries {
		if !e.dead {
			out.entries = append(out.entries, &mapEntry{k: e.k, v: copyVal(e.v)})
			out.n++
		}
	}
	if it, isIface := a[0].(iface); isIface {
		return iface{t: it.t, v: out}, true
	}
	return out, true
}

// errorsIs models errors.Is without reflection: identity of comparable error
// values along the Unwrap chain, honouring Is(error) bool methods.
func errorsIs(ex *Exec, caller *frame, fn *ssa.Function, a []Value) (Value, bool) {
	err, target := a[0].(iface), a[1].(iface)
	if err.t == nil || target.t == nil {
		return err.t == nil && target.t == nil, true
	}
	for depth := 0; depth < 32; depth++ {
		if types.Identical(err.t, target.t) && types.Comparable(err.t) {
			if ex.condBool(ex.equals(err.t, err.v, target.v)) {
				return true, true
			}
		}
		if m := ex.lookupMethodByName(err.t, "Is"); m != nil && m.Signature.Params().Len() == 1 {
			if ex.condBool(ex.callFunction(caller, m, []Value{err.v, target})) {
				return true, true
			}
		}
		m := ex.lookupMethodByName(err.t, "Unwrap")
		if m == nil || m.Signature.Results().Len() != 1 {
			return false, true
		}
		if _, isSlice := m.Signature.Results().At(0).Type().Underlying().(*types.Slice); isSlice {
			panic(unsupported("errors.Is over Unwrap() []error"))
		}
		next := ex.callFunction(caller, m, []Value{err.v}).(iface)
		if next.t == nil {
			return false, true
		}
		err = next
	}
	panic(unsupported("errors.Is: unwrap chain too long"))
}

// ---------- fmt ----------

// fmtValue renders one operand for a verb as byte values.
func (ex *Exec) fmtOperand(caller *frame, verb byte, flags string, arg Value) []Value {
	it, isIface := arg.(iface)
	var v Value = arg
	var t types.Type
	if isIface {
		v, t = it.v, it.t
	}
	lit := func(s string) []Value { return strBytes(s) }
	if isIface && t == nil {
		if verb == 'v' || verb == 's' {
			return lit("<nil>")
		}
		return lit("%!" + string(verb) + "(<nil>)")
	}
	// error / Stringer for %v %s %q
	if t != nil && (verb == 'v' || verb == 's' || verb == 'q' || verb == 'w') {
		for _, mname := range []string{"Error", "String"} {
			if m := ex.lookupMethodByName(t, mname); m != nil && m.Signature.Params().Len() == 0 && m.Signature.Results().Len() == 1 && isString(m.Signature.Results().At(0).Type()) {
				s := ex.callFunction(caller, m, []Value{v})
				if verb == 'q' {
					cs, ok := s.(string)
					if !ok {
						panic(unsupported("%q of a symbolic string"))
					}
					return lit(strconv.Quote(cs))
				}
				return strBytes(s)
			}
		}
	}
	switch x := v.(type) {
	case int64:
		switch verb {
		case 'd', 'v':
			if t != nil {
				if k, ok := basicInt(t); ok && !k.signed {
					return lit(strconv.FormatUint(uint64(x), 10))
				}
			}
			s := strconv.FormatInt(x, 10)
			if strings.Contains(flags, "+") && x >= 0 {
				s = "+" + s
			}
			return lit(s)
		case 'c':
			return lit(string(rune(x)))
		case 'q':
			return lit(strconv.QuoteRune(rune(x)))
		case 'x':
			return lit(strconv.FormatInt(x, 16))
		case 'U':
			return lit(fmt.Sprintf("%U", x))
		}
	case *Term:
		if k, ok := basicInt(t); ok && (x.Sort.K == SBV || x.Sort.K == SInt) {
			var c int64
			if x.Sort.K == SInt {
				c = int64(ex.concretiseUpTo(x, 4))
			} else {
				c = k.norm(int64(ex.concretiseUpTo(x, 4)))
			}
			return ex.fmtOperand(caller, verb, flags, iface{t: t, v: c})
		}
		if x.Sort.K == SBool {
			b := ex.condBool(x)
			return ex.fmtOperand(caller, verb, flags, iface{t: t, v: b})
		}
	case bool:
		if verb == 'v' || verb == 't' {
			return lit(strconv.FormatBool(x))
		}
	case string:
		switch verb {
		case 's', 'v':
			return lit(x)
		case 'q':
			return lit(strconv.Quote(x))
		}
	case *SymStr:
		switch verb {
		case 's', 'v':
			return x.b
		}
		panic(unsupported("%" + string(verb) + " of a symbolic string"))
	case float64:
		if verb == 'v' || verb == 'g' {
			return lit(strconv.FormatFloat(x, 'g', -1, 64))
		}
	case []Value:
		if verb == 'v' || verb == 's' || verb == 'd' || verb == 'q' {
			var et types.Type
			if t != nil {
				if st, ok := t.Underlying().(*types.Slice); ok {
					et = st.Elem()
				}
			}
			out := lit("[")
			for i, e := range x {
				if i > 0 {
					out = append(out, int64(' '))
				}
				out = append(out, ex.fmtOperand(caller, verb, flags, iface{t: et, v: e})...)
			}
			return append(out, int64(']'))
		}
	case Struct:
		if verb == 'v' && t != nil {
			st := t.Underlying().(*types.Struct)
			out := lit("{")
			for i, e := range x {
				if i > 0 {
					out = append(out, int64(' '))
				}
				if strings.Contains(flags, "+") {
					out = append(out, lit(st.Field(i).Name()+":")...)
				}
				out = append(out, ex.fmtOperand(caller, verb, flags, iface{t: st.Field(i).Type(), v: e})...)
			}
			return append(out, int64('}'))
		}
	case iface:
		return ex.fmtOperand(caller, verb, flags, x)
	}
	panic(unsupported(fmt.Sprintf("fmt verb %%%c on %T (%v)", verb, v, t)))
}

func (ex *Exec) format(caller *frame, f Value, args []Value) (out []Value, wrapped []Value) {
	fs, ok := f.(string)
	if !ok {
		panic(unsupported("symbolic format string"))
	}
	ai := 0
	for i := 0; i < len(fs); i++ {
		c := fs[i]
		if c != '%' {
			out = append(out, int64(c))
			continue
		}
		i++
		if i >= len(fs) {
			out = append(out, strBytes("%!(NOVERB)")...)
			break
		}
		flags := ""
		for i < len(fs) && strings.IndexByte("+-# 0", fs[i]) >= 0 {
			flags += string(fs[i])
			i++
		}
		width := 0
		for i < len(fs) && fs[i] >= '0' && fs[i] <= '9' {
			width = width*10 + int(fs[i]-'0')
			i++
		}
		if i >= len(fs) {
			break
		}
		verb := fs[i]
		if verb == '%' {
			out = append(out, int64('%'))
			continue
		}
		if ai >= len(args) {
			out = append(out, strBytes("%!"+string(verb)+"(MISSING)")...)
			continue
		}
		arg := args[ai]
		ai++
		if verb == 'w' {
			wrapped = append(wrapped, arg)
			verb = 'v'
		}
		piece := ex.fmtOperand(caller, verb, flags, arg)
		for pad := width - len(piece); pad > 0 && !strings.Contains(flags, "-"); pad-- {
			if strings.Contains(flags, "0") {
				out = append(out, int64('0'))
			} else {
				out = append(out, int64(' '))
			}
		}
		out = append(out, piece...)
		for pad := width - len(piece); pad > 0 && strings.Contains(flags, "-"); pad-- {
			out = append(out, int64(' '))
		}
	}
	if ai < len(args) {
		panic(unsupported("fmt: extra arguments"))
	}
	return
}

func fmtSprintf(ex *Exec, caller *frame, fn *ssa.Function, a []Value) (Value, bool) {
	out, _ := ex.format(caller, a[0], a[1].([]Value))
	return mkStr(out), true
}

func fmtErrorf(ex *Exec, caller *frame, fn *ssa.Function, a []Value) (Value, bool) {
	out, wrapped := ex.format(caller, a[0], a[1].([]Value))
	msg := mkStr(out)
	fmtPkg := ex.w.prog.ssa.ImportedPackage("fmt")
	if len(wrapped) == 1 && fmtPkg != nil {
		if w, ok := wrapped[0].(iface); ok && w.t != nil {
			wt := fmtPkg.Type("wrapError").Type()
			cell := Value(Struct{msg, w})
			return iface{t: types.NewPointer(wt), v: &cell}, true
		}
	}
	errorsPkg := ex.w.prog.ssa.ImportedPackage("errors")
	return ex.callFunction(caller, errorsPkg.Func("New"), []Value{msg}), true
}

func (ex *Exec) writeTo(caller *frame, w Value, data []Value) Value {
	it := w.(iface)
	if it.t == nil {
		ex.rtPanic("invalid memory address or nil pointer dereference")
	}
	m := ex.lookupMethodByName(it.t, "Write")
	buf := make([]Value, len(data))
	copy(buf, data)
	return ex.callFunction(caller, m, []Value{it.v, buf})
}

func fmtFprintf(ex *Exec, caller *frame, fn *ssa.Function, a []Value) (Value, bool) {
	out, _ := ex.format(caller, a[1], a[2].([]Value))
	return ex.writeTo(caller, a[0], out), true
}

func (ex *Exec) sprint(caller *frame, args []Value, ln bool) []Value {
	var out []Value
	prevString := true
	for i, arg := range args {
		isStr := false
		if it, ok := arg.(iface); ok && it.t != nil && isString(it.t) {
			isStr = true
		}
		if i > 0 && (ln || (!isStr && !prevString)) {
			out = append(out, int64(' '))
		}
		out = append(out, ex.fmtOperand(caller, 'v', "", arg)...)
		prevString = isStr
	}
	if ln {
		out = append(out, int64('\n'))
	}
	return out
}

func fmtFprint(ex *Exec, caller *frame, fn *ssa.Function, a []Value) (Value, bool) {
	return ex.writeTo(caller, a[0], ex.sprint(caller, a[1].([]Value), false)), true
}

func fmtFprintln(ex *Exec, caller *frame, fn *ssa.Function, a []Value) (Value, bool) {
	return ex.writeTo(caller, a[0], ex.sprint(caller, a[1].([]Value), true)), true
}

func fmtSprint(ex *Exec, caller *frame, fn *ssa.Function, a []Value) (Value, bool) {
	return mkStr(ex.sprint(caller, a[0].([]Value), false)), true
}

// Atomic operations: in thread mode each one is a schedule point (the thread
// yields before performing it) and synchronises through the location's clock;
// the access itself is not race-checked.
func atomicCell(ex *Exec, a []Value) *Value {
	p := ex.concPtr(a[0])
	if p == nil {
		ex.rtPanic("invalid memory address or nil pointer dereference")
	}
	if ex.threads != nil {
		ex.threads.atomicPoint(ex, p)
	}
	return p
}

func atomicElemType(fn *ssa.Function) types.Type {
	return deref(fn.Signature.Params().At(0).Type())
}

func atomicLoad(ex *Exec, _ *frame, fn *ssa.Function, a []Value) (Value, bool) {
	p := atomicCell(ex, a)
	return *p, true
}

func atomicStore(ex *Exec, _ *frame, fn *ssa.Function, a []Value) (Value, bool) {
	p := atomicCell(ex, a)
	*p = a[1]
	return nil, true
}

func atomicAdd(ex *Exec, _ *frame, fn *ssa.Function, a []Value) (Value, bool) {
	p := atomicCell(ex, a)
	t := atomicElemType(fn)
	*p = ex.binop(token.ADD, t, t, *p, a[1])
	return *p, true
}

func atomicSwap(ex *Exec, _ *frame, fn *ssa.Function, a []Value) (Value, bool) {
	p := atomicCell(ex, a)
	old := *p
	*p = a[1]
	return old, true
}

func atomicCAS(ex *Exec, _ *frame, fn *ssa.Function, a []Value) (Value, bool) {
	p := atomicCell(ex, a)
	t := atomicElemType(fn)
	if ex.condBool(ex.equals(t, *p, a[1])) {
		*p = a[2]
		return true, true
	}
	return false, true
}

// ---------- math/bits: logarithmic-depth encodings ----------
// (the library versions use a de Bruijn multiplication and table look-ups,
// which bit-blast badly; these are the textbook binary searches, validated
// against math/bits on concrete values by `./run setup`)

func (ex *Exec) tzTerm(x *Term) *Term { // x: BV64; result BV64 in 0..64
	tc := ex.tc
	n, y := tc.BV(64, 0), x
	for _, s := range []uint64{32, 16, 8, 4, 2, 1} {
		c := tc.Eq(tc.BAnd(y, tc.BV(64, uint64(1)<<s-1)), tc.BV(64, 0))
		n = tc.Ite(c, tc.Add(n, tc.BV(64, s)), n)
		y = tc.Ite(c, tc.bin(OpLShr, y, tc.BV(64, s)), y)
	}
	return tc.Ite(tc.Eq(x, tc.BV(64, 0)), tc.BV(64, 64), n)
}

func (ex *Exec) lzTerm(x *Term) *Term { // x: BV64; result BV64 in 0..64
	tc := ex.tc
	n, y := tc.BV(64, 0), x
	for _, s := range []uint64{32, 16, 8, 4, 2, 1} {
		c := tc.Eq(tc.bin(OpLShr, y, tc.BV(64, 64-s)), tc.BV(64, 0))
		n = tc.Ite(c, tc.Add(n, tc.BV(64, s)), n)
		y = tc.Ite(c, tc.bin(OpShl, y, tc.BV(64, s)), y)
	}
	return tc.Ite(tc.Eq(x, tc.BV(64, 0)), tc.BV(64, 64), n)
}

// bitsIntrinsic builds the intrinsic for a math/bits counting function on
// w-bit operands: kind 0 trailing zeros, 1 leading zeros, 2 length.
func bitsIntrinsic(w int, kind int) intrinsicFn {
	return func(ex *Exec, _ *frame, _ *ssa.Function, a []Value) (Value, bool) {
		mask := ^uint64(0)
		if w < 64 {
			mask = uint64(1)<<uint(w) - 1
		}
		switch x := a[0].(type) {
		case int64:
			u := uint64(x) & mask
			switch kind {
			case 0:
				if u == 0 {
					return int64(w), true
				}
				return int64(mbits.TrailingZeros64(u)), true
			case 1:
				return int64(mbits.LeadingZeros64(u) - (64 - w)), true
			default:
				return int64(mbits.Len64(u)), true
			}
		case *Term:
			if x.Sort.K != SBV {
				return nil, false
			}
			t := x
			if int(t.Sort.W) < 64 {
				t = ex.tc.ZExt(t, 64)
			}
			var r *Term
			switch kind {
			case 0:
				r = ex.tzTerm(t)
				if w < 64 {
					r = ex.tc.Ite(ex.tc.Eq(t, ex.tc.BV(64, 0)), ex.tc.BV(64, uint64(w)), r)
				}
			case 1:
				r = ex.tc.Sub(ex.lzTerm(t), ex.tc.BV(64, uint64(64-w)))
			default:
				r = ex.tc.Sub(ex.tc.BV(64, 64), ex.lzTerm(t))
			}
			return ex.intVal(r, intKind{64, true}), true
		}
		return nil, false
	}
}
