package main

// Hash-consed SMT terms with light simplification, an evaluator under a
// model, and an SMT-LIB2 printer. One TermCtx per worker; terms of different
// contexts never mix.

import (
	"fmt"
	"math/bits"
	"strconv"
	"strings"
)

type SortKind uint8

const (
	SBool SortKind = iota
	SBV
	SInt // mathematical integer, used only for order-only values
)

type Sort struct {
	K SortKind
	W uint8 // bit width for SBV
}

func (s Sort) String() string {
	switch s.K {
	case SBool:
		return "Bool"
	case SInt:
		return "Int"
	}
	return fmt.Sprintf("(_ BitVec %d)", s.W)
}

var sortBool = Sort{K: SBool}
var sortInt = Sort{K: SInt}

func bvSort(w int) Sort { return Sort{K: SBV, W: uint8(w)} }

type Op uint8

const (
	OpConst Op = iota
	OpVar
	OpNot
	OpAnd
	OpOr
	OpEq
	OpIte
	OpAdd
	OpSub
	OpMul
	OpUDiv
	OpURem
	OpSDiv
	OpSRem
	OpBAnd
	OpBOr
	OpBXor
	OpBNot
	OpNeg
	OpShl
	OpLShr
	OpAShr
	OpULt
	OpSLt
	OpILt // Int <
	OpConcat
	OpExtract // val = hi<<8|lo
	OpZExt    // val = extra bits
	OpSExt
)

var opNames = [...]string{
	OpNot: "not", OpAnd: "and", OpOr: "or", OpEq: "=", OpIte: "ite",
	OpAdd: "bvadd", OpSub: "bvsub", OpMul: "bvmul", OpUDiv: "bvudiv", OpURem: "bvurem",
	OpSDiv: "bvsdiv", OpSRem: "bvsrem", OpBAnd: "bvand", OpBOr: "bvor", OpBXor: "bvxor",
	OpBNot: "bvnot", OpNeg: "bvneg", OpShl: "bvshl", OpLShr: "bvlshr", OpAShr: "bvashr",
	OpULt: "bvult", OpSLt: "bvslt", OpILt: "<", OpConcat: "concat",
}

type Term struct {
	Op   Op
	Sort Sort
	Args []*Term
	Val  uint64 // constant bits (masked), or op parameter
	Name string // variable name
	ID   int
	emit int // solver epoch in which this term was defined/declared
	vars []*Term
	varsDone bool
}

// Vars returns the variables occurring in t (cached; nil result with
// tooMany=true if there are more than 6).
func (t *Term) Vars() ([]*Term, bool) {
	if t.varsDone {
		return t.vars, t.vars == nil && t.Op != OpConst
	}
	t.varsDone = true
	switch t.Op {
	case OpConst:
		t.vars = []*Term{}
		return t.vars, false
	case OpVar:
		t.vars = []*Term{t}
		return t.vars, false
	}
	var out []*Term
	for _, a := range t.Args {
		vs, many := a.Vars()
		if many {
			t.vars = nil
			return nil, true
		}
		for _, v := range vs {
			dup := false
			for _, o := range out {
				if o == v {
					dup = true
				}
			}
			if !dup {
				out = append(out, v)
			}
		}
		if len(out) > 6 {
			t.vars = nil
			return nil, true
		}
	}
	if out == nil {
		out = []*Term{}
	}
	t.vars = out
	return out, false
}

type TermCtx struct {
	tab   map[string]*Term
	next  int
	True  *Term
	False *Term
}

func NewTermCtx() *TermCtx {
	c := &TermCtx{tab: map[string]*Term{}}
	c.True = c.mk(&Term{Op: OpConst, Sort: sortBool, Val: 1})
	c.False = c.mk(&Term{Op: OpConst, Sort: sortBool, Val: 0})
	return c
}

func (c *TermCtx) mk(t *Term) *Term {
	var sb strings.Builder
	sb.WriteByte(byte(t.Op) + 'A')
	sb.WriteByte(byte(t.Sort.K) + '0')
	sb.WriteString(strconv.Itoa(int(t.Sort.W)))
	sb.WriteByte(':')
	sb.WriteString(strconv.FormatUint(t.Val, 16))
	sb.WriteByte(':')
	sb.WriteString(t.Name)
	for _, a := range t.Args {
		sb.WriteByte(',')
		sb.WriteString(strconv.Itoa(a.ID))
	}
	k := sb.String()
	if old, ok := c.tab[k]; ok {
		return old
	}
	c.next++
	t.ID = c.next
	c.tab[k] = t
	return t
}

func mask(w uint8) uint64 {
	if w >= 64 {
		return ^uint64(0)
	}
	return (uint64(1) << w) - 1
}

func (t *Term) IsConst() bool { return t.Op == OpConst }

// signed value of a BV constant
func (t *Term) SVal() int64 {
	if t.Sort.K == SInt {
		return int64(t.Val)
	}
	return sext(t.Val, t.Sort.W)
}

func sext(v uint64, w uint8) int64 {
	if w >= 64 {
		return int64(v)
	}
	sh := 64 - uint(w)
	return int64(v<<sh) >> sh
}

func (c *TermCtx) Bool(b bool) *Term {
	if b {
		return c.True
	}
	return c.False
}

func (c *TermCtx) BV(w int, v uint64) *Term {
	return c.mk(&Term{Op: OpConst, Sort: bvSort(w), Val: v & mask(uint8(w))})
}

func (c *TermCtx) IntConst(v int64) *Term {
	return c.mk(&Term{Op: OpConst, Sort: sortInt, Val: uint64(v)})
}

func (c *TermCtx) Var(name string, s Sort) *Term {
	return c.mk(&Term{Op: OpVar, Sort: s, Name: name})
}

// ---------- boolean layer ----------

func (c *TermCtx) Not(a *Term) *Term {
	if a.IsConst() {
		return c.Bool(a.Val == 0)
	}
	if a.Op == OpNot {
		return a.Args[0]
	}
	return c.mk(&Term{Op: OpNot, Sort: sortBool, Args: []*Term{a}})
}

func (c *TermCtx) And(as ...*Term) *Term {
	var out []*Term
	for _, a := range as {
		if a.IsConst() {
			if a.Val == 0 {
				return c.False
			}
			continue
		}
		if a.Op == OpAnd {
			out = append(out, a.Args...)
			continue
		}
		out = append(out, a)
	}
	out = dedup(out)
	for _, a := range out {
		if a.Op == OpNot {
			for _, b := range out {
				if b == a.Args[0] {
					return c.False
				}
			}
		}
	}
	switch len(out) {
	case 0:
		return c.True
	case 1:
		return out[0]
	}
	sortByID(out)
	return c.mk(&Term{Op: OpAnd, Sort: sortBool, Args: out})
}

// sortByID puts commutative arguments in a canonical order (copying first).
func sortByID(ts []*Term) {
	for i := 1; i < len(ts); i++ {
		for j := i; j > 0 && ts[j-1].ID > ts[j].ID; j-- {
			ts[j-1], ts[j] = ts[j], ts[j-1]
		}
	}
}

func dedup(ts []*Term) []*Term {
	if len(ts) < 2 {
		return ts
	}
	seen := map[*Term]bool{}
	out := ts[:0:0]
	for _, t := range ts {
		if !seen[t] {
			seen[t] = true
			out = append(out, t)
		}
	}
	return out
}

func (c *TermCtx) Or(as ...*Term) *Term {
	var out []*Term
	for _, a := range as {
		if a.IsConst() {
			if a.Val == 1 {
				return c.True
			}
			continue
		}
		if a.Op == OpOr {
			out = append(out, a.Args...)
			continue
		}
		out = append(out, a)
	}
	out = dedup(out)
	for _, a := range out {
		if a.Op == OpNot {
			for _, b := range out {
				if b == a.Args[0] {
					return c.True
				}
			}
		}
	}
	switch len(out) {
	case 0:
		return c.False
	case 1:
		return out[0]
	}
	sortByID(out)
	return c.mk(&Term{Op: OpOr, Sort: sortBool, Args: out})
}

func (c *TermCtx) Implies(a, b *Term) *Term { return c.Or(c.Not(a), b) }

func (c *TermCtx) Eq(a, b *Term) *Term {
	if a == b {
		return c.True
	}
	if a.Sort != b.Sort {
		panic(fmt.Sprintf("Eq: sort mismatch %v vs %v", a.Sort, b.Sort))
	}
	if a.IsConst() && b.IsConst() {
		return c.Bool(a.Val == b.Val)
	}
	if a.Sort.K == SBool {
		if a.IsConst() {
			a, b = b, a
		}
		if b.IsConst() {
			if b.Val == 1 {
				return a
			}
			return c.Not(a)
		}
	}
	// lift over constant-leaf ite trees: (ite c k1 k2) == k
	if b.IsConst() && c.constIte(a) {
		return c.mapIte(a, func(x *Term) *Term { return c.Eq(x, b) })
	}
	if a.IsConst() && c.constIte(b) {
		return c.mapIte(b, func(x *Term) *Term { return c.Eq(a, x) })
	}
	if a.ID > b.ID {
		a, b = b, a
	}
	return c.mk(&Term{Op: OpEq, Sort: sortBool, Args: []*Term{a, b}})
}

func (c *TermCtx) Ite(cond, a, b *Term) *Term {
	if cond.IsConst() {
		if cond.Val == 1 {
			return a
		}
		return b
	}
	if a == b {
		return a
	}
	if a.Sort != b.Sort {
		panic(fmt.Sprintf("Ite: sort mismatch %v vs %v", a.Sort, b.Sort))
	}
	if cond.Op == OpNot {
		return c.Ite(cond.Args[0], b, a)
	}
	if a.Sort.K == SBool {
		if a.IsConst() {
			if a.Val == 1 {
				return c.Or(cond, b)
			}
			return c.And(c.Not(cond), b)
		}
		if b.IsConst() {
			if b.Val == 1 {
				return c.Or(c.Not(cond), a)
			}
			return c.And(cond, a)
		}
	}
	return c.mk(&Term{Op: OpIte, Sort: a.Sort, Args: []*Term{cond, a, b}})
}

// constIte reports whether t is an ite tree (depth <= 4) whose leaves are all constants.
func (c *TermCtx) constIte(t *Term) bool { return constIteDepth(t, 4) }

func constIteDepth(t *Term, d int) bool {
	if t.Op != OpIte || d == 0 {
		return false
	}
	for _, a := range t.Args[1:] {
		if !a.IsConst() && !constIteDepth(a, d-1) {
			return false
		}
	}
	return true
}

func (c *TermCtx) mapIte(t *Term, f func(*Term) *Term) *Term {
	if t.Op != OpIte {
		return f(t)
	}
	return c.Ite(t.Args[0], c.mapIte(t.Args[1], f), c.mapIte(t.Args[2], f))
}

// ---------- bit-vector layer ----------

func (c *TermCtx) bin(op Op, a, b *Term) *Term {
	if a.Sort != b.Sort {
		panic(fmt.Sprintf("bin %s: sort mismatch %v vs %v", opNames[op], a.Sort, b.Sort))
	}
	if a.Sort.K != SBV {
		panic(fmt.Sprintf("bin %s on non-bitvector sort %v", opNames[op], a.Sort))
	}
	w := a.Sort.W
	if a.IsConst() && b.IsConst() {
		if v, ok := foldBin(op, a.Val, b.Val, w); ok {
			return c.BV(int(w), v)
		}
	}
	// lifting over constant ite trees
	if b.IsConst() && c.constIte(a) {
		if !((op == OpUDiv || op == OpURem || op == OpSDiv || op == OpSRem) && b.Val == 0) {
			return c.mapIte(a, func(x *Term) *Term { return c.bin(op, x, b) })
		}
	}
	if a.IsConst() && c.constIte(b) && op != OpUDiv && op != OpURem && op != OpSDiv && op != OpSRem {
		return c.mapIte(b, func(x *Term) *Term { return c.bin(op, a, x) })
	}
	switch op {
	case OpAdd:
		if a.IsConst() && a.Val == 0 {
			return b
		}
		if b.IsConst() && b.Val == 0 {
			return a
		}
		if a.IsConst() { // constants to the right
			a, b = b, a
		}
		// (x + k1) + k2
		if b.IsConst() && a.Op == OpAdd && a.Args[1].IsConst() {
			return c.bin(OpAdd, a.Args[0], c.BV(int(w), a.Args[1].Val+b.Val))
		}
	case OpSub:
		if b.IsConst() && b.Val == 0 {
			return a
		}
		if a == b {
			return c.BV(int(w), 0)
		}
		if b.IsConst() {
			return c.bin(OpAdd, a, c.BV(int(w), -b.Val))
		}
	case OpMul:
		if a.IsConst() {
			a, b = b, a
		}
		if b.IsConst() {
			if b.Val == 0 {
				return b
			}
			if b.Val == 1 {
				return a
			}
		}
	case OpBAnd:
		if a.IsConst() {
			a, b = b, a
		}
		if b.IsConst() {
			if b.Val == 0 {
				return b
			}
			if b.Val == mask(w) {
				return a
			}
		}
		if a == b {
			return a
		}
	case OpBOr:
		if a.IsConst() {
			a, b = b, a
		}
		if b.IsConst() {
			if b.Val == 0 {
				return a
			}
			if b.Val == mask(w) {
				return b
			}
		}
		if a == b {
			return a
		}
	case OpBXor:
		if a.IsConst() {
			a, b = b, a
		}
		if b.IsConst() && b.Val == 0 {
			return a
		}
		if a == b {
			return c.BV(int(w), 0)
		}
	case OpShl, OpLShr, OpAShr:
		if b.IsConst() && b.Val == 0 {
			return a
		}
	}
	return c.mk(&Term{Op: op, Sort: a.Sort, Args: []*Term{a, b}})
}

func foldBin(op Op, a, b uint64, w uint8) (uint64, bool) {
	m := mask(w)
	sa, sb := sext(a, w), sext(b, w)
	switch op {
	case OpAdd:
		return (a + b) & m, true
	case OpSub:
		return (a - b) & m, true
	case OpMul:
		return (a * b) & m, true
	case OpUDiv:
		if b == 0 {
			return m, true
		}
		return (a / b) & m, true
	case OpURem:
		if b == 0 {
			return a, true
		}
		return (a % b) & m, true
	case OpSDiv:
		if b == 0 {
			if sa >= 0 {
				return m, true
			}
			return 1, true
		}
		if sb == -1 {
			return uint64(-sa) & m, true
		}
		return uint64(sa/sb) & m, true
	case OpSRem:
		if b == 0 {
			return a, true
		}
		if sb == -1 {
			return 0, true
		}
		return uint64(sa%sb) & m, true
	case OpBAnd:
		return a & b, true
	case OpBOr:
		return a | b, true
	case OpBXor:
		return a ^ b, true
	case OpShl:
		if b >= uint64(w) {
			return 0, true
		}
		return (a << b) & m, true
	case OpLShr:
		if b >= uint64(w) {
			return 0, true
		}
		return a >> b, true
	case OpAShr:
		if b >= uint64(w) {
			if sa < 0 {
				return m, true
			}
			return 0, true
		}
		return uint64(sa>>b) & m, true
	}
	return 0, false
}

func (c *TermCtx) Add(a, b *Term) *Term  { return c.bin(OpAdd, a, b) }
func (c *TermCtx) Sub(a, b *Term) *Term  { return c.bin(OpSub, a, b) }
func (c *TermCtx) Mul(a, b *Term) *Term  { return c.bin(OpMul, a, b) }
func (c *TermCtx) BAnd(a, b *Term) *Term { return c.bin(OpBAnd, a, b) }
func (c *TermCtx) BOr(a, b *Term) *Term  { return c.bin(OpBOr, a, b) }
func (c *TermCtx) BXor(a, b *Term) *Term { return c.bin(OpBXor, a, b) }

func (c *TermCtx) BNot(a *Term) *Term {
	if a.IsConst() {
		return c.BV(int(a.Sort.W), ^a.Val)
	}
	if a.Op == OpBNot {
		return a.Args[0]
	}
	if c.constIte(a) {
		return c.mapIte(a, c.BNot)
	}
	return c.mk(&Term{Op: OpBNot, Sort: a.Sort, Args: []*Term{a}})
}

func (c *TermCtx) Neg(a *Term) *Term {
	if a.IsConst() {
		return c.BV(int(a.Sort.W), -a.Val)
	}
	if a.Op == OpNeg {
		return a.Args[0]
	}
	if c.constIte(a) {
		return c.mapIte(a, c.Neg)
	}
	return c.mk(&Term{Op: OpNeg, Sort: a.Sort, Args: []*Term{a}})
}

// Lt builds a<b; signed selects bvslt vs bvult; on Int sort uses <.
func (c *TermCtx) Lt(a, b *Term, signed bool) *Term {
	if a.Sort != b.Sort {
		panic(fmt.Sprintf("Lt: sort mismatch %v vs %v", a.Sort, b.Sort))
	}
	if a == b {
		return c.False
	}
	if a.Sort.K == SInt {
		if a.IsConst() && b.IsConst() {
			return c.Bool(int64(a.Val) < int64(b.Val))
		}
		return c.mk(&Term{Op: OpILt, Sort: sortBool, Args: []*Term{a, b}})
	}
	if a.IsConst() && b.IsConst() {
		if signed {
			return c.Bool(a.SVal() < b.SVal())
		}
		return c.Bool(a.Val < b.Val)
	}
	if b.IsConst() && c.constIte(a) {
		return c.mapIte(a, func(x *Term) *Term { return c.Lt(x, b, signed) })
	}
	if a.IsConst() && c.constIte(b) {
		return c.mapIte(b, func(x *Term) *Term { return c.Lt(a, x, signed) })
	}
	if !signed {
		if b.IsConst() && b.Val == 0 {
			return c.False
		}
		if a.IsConst() && a.Val == mask(a.Sort.W) {
			return c.False
		}
	}
	op := OpULt
	if signed {
		op = OpSLt
	}
	return c.mk(&Term{Op: op, Sort: sortBool, Args: []*Term{a, b}})
}

func (c *TermCtx) Le(a, b *Term, signed bool) *Term { return c.Not(c.Lt(b, a, signed)) }

func (c *TermCtx) Extract(a *Term, hi, lo int) *Term {
	w := hi - lo + 1
	if lo == 0 && w == int(a.Sort.W) {
		return a
	}
	if a.IsConst() {
		return c.BV(w, a.Val>>uint(lo))
	}
	switch a.Op {
	case OpConcat:
		lw := int(a.Args[1].Sort.W)
		if hi < lw {
			return c.Extract(a.Args[1], hi, lo)
		}
		if lo >= lw {
			return c.Extract(a.Args[0], hi-lw, lo-lw)
		}
	case OpZExt, OpSExt:
		iw := int(a.Args[0].Sort.W)
		if hi < iw {
			return c.Extract(a.Args[0], hi, lo)
		}
		if a.Op == OpZExt && lo >= iw {
			return c.BV(w, 0)
		}
	case OpExtract:
		ilo := int(a.Val & 0xff)
		return c.Extract(a.Args[0], hi+ilo, lo+ilo)
	case OpIte:
		if c.constIte(a) {
			return c.mapIte(a, func(x *Term) *Term { return c.Extract(x, hi, lo) })
		}
	}
	return c.mk(&Term{Op: OpExtract, Sort: bvSort(w), Args: []*Term{a}, Val: uint64(hi)<<8 | uint64(lo)})
}

func (c *TermCtx) Concat(hi, lo *Term) *Term {
	w := int(hi.Sort.W) + int(lo.Sort.W)
	if hi.IsConst() && lo.IsConst() {
		return c.BV(w, hi.Val<<lo.Sort.W|lo.Val)
	}
	return c.mk(&Term{Op: OpConcat, Sort: bvSort(w), Args: []*Term{hi, lo}})
}

func (c *TermCtx) ZExt(a *Term, to int) *Term {
	n := to - int(a.Sort.W)
	if n == 0 {
		return a
	}
	if a.IsConst() {
		return c.BV(to, a.Val)
	}
	if c.constIte(a) {
		return c.mapIte(a, func(x *Term) *Term { return c.ZExt(x, to) })
	}
	if a.Op == OpZExt {
		return c.ZExt(a.Args[0], to)
	}
	return c.mk(&Term{Op: OpZExt, Sort: bvSort(to), Args: []*Term{a}, Val: uint64(n)})
}

func (c *TermCtx) SExt(a *Term, to int) *Term {
	n := to - int(a.Sort.W)
	if n == 0 {
		return a
	}
	if a.IsConst() {
		return c.BV(to, uint64(a.SVal()))
	}
	if c.constIte(a) {
		return c.mapIte(a, func(x *Term) *Term { return c.SExt(x, to) })
	}
	if a.Op == OpZExt { // sign bit is zero
		return c.ZExt(a.Args[0], to)
	}
	return c.mk(&Term{Op: OpSExt, Sort: bvSort(to), Args: []*Term{a}, Val: uint64(n)})
}

// ---------- evaluation under a model ----------

type Model map[*Term]uint64

func (c *TermCtx) Eval(t *Term, m Model, memo map[*Term]uint64) uint64 {
	if t.Op == OpConst {
		return t.Val
	}
	if v, ok := memo[t]; ok {
		return v
	}
	var r uint64
	ev := func(i int) uint64 { return c.Eval(t.Args[i], m, memo) }
	switch t.Op {
	case OpVar:
		r = m[t]
	case OpNot:
		r = 1 - ev(0)
	case OpAnd:
		r = 1
		for i := range t.Args {
			if ev(i) == 0 {
				r = 0
				break
			}
		}
	case OpOr:
		r = 0
		for i := range t.Args {
			if ev(i) == 1 {
				r = 1
				break
			}
		}
	case OpEq:
		r = b2u(ev(0) == ev(1))
	case OpIte:
		if ev(0) == 1 {
			r = ev(1)
		} else {
			r = ev(2)
		}
	case OpULt:
		r = b2u(ev(0) < ev(1))
	case OpSLt:
		w := t.Args[0].Sort.W
		r = b2u(sext(ev(0), w) < sext(ev(1), w))
	case OpILt:
		r = b2u(int64(ev(0)) < int64(ev(1)))
	case OpBNot:
		r = ^ev(0) & mask(t.Sort.W)
	case OpNeg:
		r = -ev(0) & mask(t.Sort.W)
	case OpExtract:
		lo := uint(t.Val & 0xff)
		r = (ev(0) >> lo) & mask(t.Sort.W)
	case OpConcat:
		r = ev(0)<<t.Args[1].Sort.W | ev(1)
	case OpZExt:
		r = ev(0)
	case OpSExt:
		r = uint64(sext(ev(0), t.Args[0].Sort.W)) & mask(t.Sort.W)
	default:
		v, ok := foldBin(t.Op, ev(0), ev(1), t.Sort.W)
		if !ok {
			panic("Eval: unhandled op " + opNames[t.Op])
		}
		r = v
	}
	memo[t] = r
	return r
}

func b2u(b bool) uint64 {
	if b {
		return 1
	}
	return 0
}

// ---------- printing ----------

func (t *Term) ref() string {
	switch t.Op {
	case OpConst:
		switch t.Sort.K {
		case SBool:
			if t.Val == 1 {
				return "true"
			}
			return "false"
		case SInt:
			v := int64(t.Val)
			if v < 0 {
				return fmt.Sprintf("(- %d)", -v)
			}
			return strconv.FormatInt(v, 10)
		}
		if t.Sort.W%4 == 0 {
			return fmt.Sprintf("#x%0*x", int(t.Sort.W)/4, t.Val)
		}
		return fmt.Sprintf("#b%0*b", int(t.Sort.W), t.Val)
	case OpVar:
		return t.Name
	}
	return "t" + strconv.Itoa(t.ID)
}

func (t *Term) body() string {
	var sb strings.Builder
	sb.WriteByte('(')
	switch t.Op {
	case OpExtract:
		fmt.Fprintf(&sb, "(_ extract %d %d)", t.Val>>8, t.Val&0xff)
	case OpZExt:
		fmt.Fprintf(&sb, "(_ zero_extend %d)", t.Val)
	case OpSExt:
		fmt.Fprintf(&sb, "(_ sign_extend %d)", t.Val)
	default:
		sb.WriteString(opNames[t.Op])
	}
	for _, a := range t.Args {
		sb.WriteByte(' ')
		sb.WriteString(a.ref())
	}
	sb.WriteByte(')')
	return sb.String()
}

// String renders the full expression (for debugging and samples; may be large).
func (t *Term) String() string { return t.str(6) }

func (t *Term) str(depth int) string {
	if t.Op == OpConst || t.Op == OpVar {
		return t.ref()
	}
	if depth == 0 {
		return "…"
	}
	var sb strings.Builder
	sb.WriteByte('(')
	switch t.Op {
	case OpExtract:
		fmt.Fprintf(&sb, "extract[%d:%d]", t.Val>>8, t.Val&0xff)
	case OpZExt:
		sb.WriteString("zext")
	case OpSExt:
		sb.WriteString("sext")
	default:
		sb.WriteString(opNames[t.Op])
	}
	for _, a := range t.Args {
		sb.WriteByte(' ')
		sb.WriteString(a.str(depth - 1))
	}
	sb.WriteByte(')')
	return sb.String()
}

var _ = bits.Len

// ubounds returns conservative unsigned bounds of a bit-vector term (used only
// to leave impossible cells out of an ite chain over a table; [0, 2^w-1] when
// nothing better is known).
func ubounds(t *Term, depth int) (lo, hi uint64) {
	full := uint64(1)<<t.Sort.W - 1
	if t.Sort.W >= 64 {
		full = ^uint64(0)
	}
	if t.Sort.K != SBV || depth > 12 {
		return 0, full
	}
	switch t.Op {
	case OpConst:
		return t.Val, t.Val
	case OpZExt:
		return ubounds(t.Args[0], depth+1)
	case OpIte:
		l1, h1 := ubounds(t.Args[1], depth+1)
		l2, h2 := ubounds(t.Args[2], depth+1)
		return min(l1, l2), max(h1, h2)
	case OpBAnd:
		_, h1 := ubounds(t.Args[0], depth+1)
		_, h2 := ubounds(t.Args[1], depth+1)
		return 0, min(h1, h2)
	case OpAdd:
		l1, h1 := ubounds(t.Args[0], depth+1)
		l2, h2 := ubounds(t.Args[1], depth+1)
		if h1 <= full-h2 { // no wrap-around possible
			return l1 + l2, h1 + h2
		}
	case OpMul:
		l1, h1 := ubounds(t.Args[0], depth+1)
		l2, h2 := ubounds(t.Args[1], depth+1)
		if hiw, low := bits.Mul64(h1, h2); hiw == 0 && low <= full {
			return l1 * l2, low
		}
	case OpShl:
		if c := t.Args[1]; c.Op == OpConst && c.Val < 64 {
			l1, h1 := ubounds(t.Args[0], depth+1)
			if h1 <= full>>c.Val {
				return l1 << c.Val, h1 << c.Val
			}
		}
	case OpLShr:
		if c := t.Args[1]; c.Op == OpConst && c.Val < 64 {
			l1, h1 := ubounds(t.Args[0], depth+1)
			return l1 >> c.Val, h1 >> c.Val
		}
	case OpURem:
		if c := t.Args[1]; c.Op == OpConst && c.Val > 0 {
			return 0, c.Val - 1
		}
	}
	return 0, full
}
