package main

// The check driver: explore every unit of a property, confirm violations by
// native replay, attribute them to known findings (neutraliser overlays), run
// the translator self-test, write evidence, and set the exit code.

import (
	"encoding/json"
	"flag"
	"fmt"
	"os"
	"os/exec"
	"path/filepath"
	"runtime"
	"sort"
	"strconv"
	"strings"
	"time"
)

type Finding struct {
	ID          string        `json:"id"`
	Properties  []string      `json:"properties"`
	What        string        `json:"what"`
	Package     string        `json:"package"`
	WitnessFile string        `json:"witness_harness"`
	Witness     string        `json:"witness_entry"`
	Neutraliser []SourcePatch `json:"neutraliser"`
	// alternative spellings of the neutraliser, tried in order when the first
	// does not apply to the (refactored) source
	NeutraliserAlt [][]SourcePatch `json:"neutraliser_alt,omitempty"`
}

// resolveNeutraliser returns the first spelling of f's neutraliser that applies
// to the current tree, or nil.
func resolveNeutraliser(repo, verif string, f *Finding) []SourcePatch {
	for _, ps := range append([][]SourcePatch{f.Neutraliser}, f.NeutraliserAlt...) {
		if len(ps) > 0 && patchesApply(repo, verif, ps) {
			return ps
		}
	}
	return nil
}

type FindingsFile struct {
	Open  []Finding `json:"open"`
	Fixed []string  `json:"fixed"`
}

var exploreSeq int

type unitResult struct {
	unit      *CheckSpec
	run       *Run
	prog      *Program
	stale     string
	staleWB   string
	skipped   []string
	loadErr   error
	jobs      []*Job
	loadS     float64
	exploreS  float64
	selftestN int
	selftestMismatch []string
}

type checkOpts struct {
	repo, verif, tier, solver string
	workers                   int
	seed                      int64
	timeout                   time.Duration
	maxWall                   time.Duration // per exploration; exceeding it makes the run inconclusive
	crossEvery                int
}

func unitsOf(spec *CheckSpec) []*CheckSpec {
	if len(spec.Units) == 0 {
		return []*CheckSpec{spec}
	}
	for _, u := range spec.Units {
		u.Property = spec.Property
		if u.QueryTimeoutS == nil {
			u.QueryTimeoutS = spec.QueryTimeoutS
		}
	}
	return spec.Units
}

func exploreUnit(o *checkOpts, unit *CheckSpec, patches []SourcePatch, dumpDir string) *unitResult {
	ur := &unitResult{unit: unit}
	t0 := time.Now()
	ov, err := buildOverlay(o.repo, o.verif, unit, patches, false)
	if err != nil {
		ur.loadErr = err
		return ur
	}
	prog, err := loadProgram(o.repo, unit, ov)
	if se, ok := err.(*staleError); ok && len(unit.WhiteboxFiles) > 0 {
		// a white-box harness no longer type-checks against the current tree
		// (a refactoring): drop it and let the exported-API harnesses decide
		ur.staleWB = firstLine(se.msg)
		reduced := *unit
		reduced.HarnessFiles = nil
		for _, h := range unit.HarnessFiles {
			if !contains(unit.WhiteboxFiles, h) {
				reduced.HarnessFiles = append(reduced.HarnessFiles, h)
			}
		}
		ov, err = buildOverlay(o.repo, o.verif, &reduced, patches, false)
		if err == nil {
			prog, err = loadProgram(o.repo, &reduced, ov)
		}
		ur.unit = &reduced
		unit = &reduced
	}
	if err != nil {
		if se, ok := err.(*staleError); ok {
			ur.stale = se.msg
		} else {
			ur.loadErr = err
		}
		return ur
	}
	ur.prog = prog
	ur.loadS = time.Since(t0).Seconds()
	specs := unit.Jobs[o.tier]
	if ur.staleWB != "" {
		var keep []JobSpec
		for _, js := range specs {
			if prog.target.Func(js.Entry) != nil {
				keep = append(keep, js)
			} else {
				ur.skipped = append(ur.skipped, js.Entry)
			}
		}
		specs = keep
		var cov []string
		reduced := *unit
		for _, c := range unit.RequiredCover {
			cov = append(cov, c)
		}
		reduced.RequiredCover = nil // labels of skipped harnesses cannot be required
		unit = &reduced
		ur.unit = &reduced
		_ = cov
	}
	jobs, err := expandJobs(prog, specs)
	if err != nil {
		if se, ok := err.(*staleError); ok {
			ur.stale = se.msg
		} else {
			ur.loadErr = err
		}
		return ur
	}
	ur.jobs = jobs
	r := newRun(prog, unit, o.solver, o.timeout)
	r.seed = o.seed
	if o.maxWall > 0 {
		r.deadline = time.Now().Add(o.maxWall)
	}
	if dumpDir != "" && o.crossEvery > 0 {
		// one sub-directory per exploration: units and phases must not overwrite each other's dumps
		exploreSeq++
		sub := filepath.Join(dumpDir, fmt.Sprintf("x%03d", exploreSeq))
		os.MkdirAll(sub, 0o755)
		r.dumpDir, r.dumpEvery = sub, o.crossEvery
		r.dumpMax = 3
		if o.tier == "thorough" {
			r.dumpMax = 12
		}
	}
	t1 := time.Now()
	if err := r.execute(jobs, o.workers); err != nil {
		ur.loadErr = err
		return ur
	}
	ur.exploreS = time.Since(t1).Seconds()
	ur.run = r
	return ur
}

func (ur *unitResult) inconclusive() []string {
	var out []string
	if ur.loadErr != nil {
		out = append(out, "load error: "+ur.loadErr.Error())
		return out
	}
	if ur.run == nil {
		return out
	}
	for m, n := range ur.run.msgs {
		out = append(out, fmt.Sprintf("%dx %s", n, m))
	}
	sort.Strings(out)
	return out
}

func entriesOf(prog *Program) []string {
	var out []string
	for name, m := range prog.target.Members {
		if strings.HasPrefix(name, "VH_") || strings.HasPrefix(name, "VT_") || strings.HasPrefix(name, "VF_") {
			if _, ok := m.(interface{ Name() string }); ok {
				out = append(out, name)
			}
		}
	}
	sort.Strings(out)
	return out
}

// selftest runs the unit's VT_ drivers in the engine and natively and diffs the traces.
func selftest(o *checkOpts, ur *unitResult, patches []SourcePatch) error {
	unit := ur.unit
	if len(unit.Selftest) == 0 || ur.prog == nil {
		return nil
	}
	if ur.staleWB != "" {
		// self-test drivers that lived in a dropped white-box file cannot run
		reduced := *unit
		reduced.Selftest = nil
		for _, e := range unit.Selftest {
			if ur.prog.target.Func(e) != nil {
				reduced.Selftest = append(reduced.Selftest, e)
			}
		}
		unit = &reduced
		if len(unit.Selftest) == 0 {
			return nil
		}
	}
	var specs []JobSpec
	for _, e := range unit.Selftest {
		specs = append(specs, JobSpec{Entry: e, MapOrder: "first"})
	}
	jobs, err := expandJobs(ur.prog, specs)
	if err != nil {
		return err
	}
	r := newRun(ur.prog, unit, o.solver, o.timeout)
	if err := r.execute(jobs, o.workers); err != nil {
		return err
	}
	if r.paths[outOK] != len(jobs) {
		var ms []string
		for m := range r.msgs {
			ms = append(ms, m)
		}
		for _, v := range r.violations {
			ms = append(ms, "violation: "+v.Label)
		}
		ur.selftestMismatch = append(ur.selftestMismatch, fmt.Sprintf("self-test drivers did not all complete in the engine: %v %v", r.paths, ms))
		return nil
	}
	tmp, err := os.MkdirTemp("", "symgo-st-")
	if err != nil {
		return err
	}
	defer os.RemoveAll(tmp)
	rf := &replayFile{Property: unit.Property, Package: unit.Package, Entries: unit.Selftest, Cases: map[string]int{}}
	b, _ := json.Marshal(rf)
	rp := filepath.Join(tmp, "selftest.json")
	os.WriteFile(rp, b, 0o644)
	nr, err := nativeRun(o.repo, o.verif, unit, patches, rp, entriesOf(ur.prog), 120*time.Second)
	if err != nil {
		return err
	}
	if !nr.OK {
		ur.selftestMismatch = append(ur.selftestMismatch, "native self-test run failed:\n"+tail(nr.Output, 30))
		return nil
	}
	for _, e := range unit.Selftest {
		want := nr.Traces[e]
		got := r.outTraces[e+"()"]
		if strings.Join(want, "\n") != strings.Join(got, "\n") {
			ur.selftestMismatch = append(ur.selftestMismatch, fmt.Sprintf("trace mismatch in %s:\n engine: %v\n native: %v", e, got, want))
		} else {
			ur.selftestN += len(want)
		}
	}
	return nil
}

func tail(s string, n int) string {
	lines := strings.Split(strings.TrimRight(s, "\n"), "\n")
	if len(lines) > n {
		lines = lines[len(lines)-n:]
	}
	return strings.Join(lines, "\n")
}

func treeRev(repo string) string {
	out, err := exec.Command("git", "-C", repo, "rev-parse", "--short", "HEAD").Output()
	rev := strings.TrimSpace(string(out))
	if err != nil {
		rev = "unknown"
	}
	st, _ := exec.Command("git", "-C", repo, "status", "--porcelain").Output()
	if len(strings.TrimSpace(string(st))) > 0 {
		rev += "+dirty"
	}
	return rev
}

func cmdCheck(args []string) {
	fs := flag.NewFlagSet("check", flag.ExitOnError)
	specPath := fs.String("spec", "", "check spec json")
	tier := fs.String("tier", "", "quick|thorough (default $VERIF_TIER or quick)")
	repo := fs.String("repo", envOr("VERIF_REPO", "/repo"), "repository root")
	verif := fs.String("verif", envOr("VERIF_DIR", "/verif"), "verif root")
	workers := fs.Int("j", runtime.NumCPU(), "workers")
	solver := fs.String("solver", "z3", "z3|z3-new|cvc5")
	noSelftest := fs.Bool("no-selftest", false, "skip the translator self-test")
	fs.Parse(args)
	if *tier == "" {
		*tier = os.Getenv("VERIF_TIER")
		if *tier == "" {
			*tier = "quick"
		}
	}
	seed, _ := strconv.ParseInt(os.Getenv("VERIF_SEED"), 10, 64)
	spec, err := readSpec(*specPath)
	if err != nil {
		fmt.Fprintln(os.Stderr, err)
		os.Exit(2)
	}
	o := &checkOpts{repo: *repo, verif: *verif, tier: *tier, solver: *solver, workers: *workers, seed: seed}
	to := 20
	if *tier == "thorough" {
		to = 120
	}
	if v, ok := spec.QueryTimeoutS[*tier]; ok {
		to = v
	}
	o.timeout = time.Duration(to) * time.Second
	o.maxWall = 20 * time.Minute
	if *tier == "thorough" {
		o.maxWall = 90 * time.Minute
	}
	if v, ok := spec.MaxWallS[*tier]; ok {
		o.maxWall = time.Duration(v) * time.Second
	}
	o.crossEvery = 97 // every 97th query of each worker is re-decided by the other solvers (capped per worker)
	if spec.CrossEvery != nil {
		if v, ok := spec.CrossEvery[*tier]; ok {
			o.crossEvery = v
		}
	}
	os.Exit(runCheck(o, spec, !*noSelftest))
}

type violationReport struct {
	unit    *CheckSpec
	v       *violation
	path    string
	native  string
	confirm bool
	engineOnly bool
}

func runCheck(o *checkOpts, spec *CheckSpec, doSelftest bool) int {
	t0 := time.Now()
	prop := spec.Property
	units := unitsOf(spec)
	dumpDir := ""
	if o.crossEvery > 0 {
		d, err := os.MkdirTemp("", "symgo-cross-")
		if err == nil {
			dumpDir = d
			defer os.RemoveAll(d)
		}
	}
	explore := func(patches []SourcePatch) []*unitResult {
		var out []*unitResult
		for _, u := range units {
			ups := patchesFor(u, patches)
			out = append(out, exploreUnit(o, u, ups, dumpDir))
		}
		return out
	}
	results := explore(nil)
	ev := newEvidence(prop, o)
	var selfN int
	var selfBad []string
	if doSelftest {
		for _, ur := range results {
			if err := selftest(o, ur, nil); err != nil {
				selfBad = append(selfBad, err.Error())
			}
			selfN += ur.selftestN
			selfBad = append(selfBad, ur.selftestMismatch...)
		}
	}
	ev.selftestTraces = selfN

	collect := func(results []*unitResult, tag string, patches []SourcePatch) (reports []*violationReport, inconcl []string) {
		for _, ur := range results {
			if ur.stale != "" {
				continue
			}
			for _, m := range ur.inconclusive() {
				inconcl = append(inconcl, ur.unit.Package+": "+m)
			}
			if ur.run == nil {
				continue
			}
			seen := map[string]int{}
			for _, v := range ur.run.violations {
				key := v.Kind + "|" + v.Label
				seen[key]++
				if seen[key] > 1 || len(reports) >= 4 {
					continue
				}
				rf := violationToReplay(prop, ur.unit, v, tag)
				rf.TreeRev = treeRev(o.repo)
				p, err := writeReplay(o.verif, rf)
				if err != nil {
					inconcl = append(inconcl, "cannot write replay file: "+err.Error())
					continue
				}
				rep := &violationReport{unit: ur.unit, v: v, path: p}
				if v.Kind == "unsafe" || v.Kind == "race" || v.Kind == "pool" || v.Kind == "deadlock" && v.Threads || v.Threads {
					rep.engineOnly, rep.confirm = true, true
					rep.native = "engine-confirmed only: the counterexample is a goroutine schedule / happens-before fact that cannot be forced natively (the engine's replay of the recorded decisions is deterministic)"
					if v.Kind == "unsafe" {
						rep.native = "engine-confirmed only: an access outside the slice that lands inside its backing array is invisible to a native run"
					}
					if v.Kind == "pool" {
						rep.native = "engine-confirmed only: a sync.Pool holding one object twice shows only when two goroutines draw from it at once"
					}
				} else {
					to := 60 * time.Second
					if v.Kind == "unwind" {
						to = 10 * time.Second
					}
					nr, err := nativeRun(o.repo, o.verif, ur.unit, patchesFor(ur.unit, patches), p, entriesOf(ur.prog), to)
					if err != nil {
						inconcl = append(inconcl, "native replay could not run: "+err.Error())
						continue
					}
					rep.confirm, rep.native = nr.confirms(rf.Expect)
					ev.replays++
					// a counterexample that depends on map iteration order cannot be
					// forced natively: retry (the runtime randomises), then fall back to
					// the engine's deterministic replay
					for try := 0; !rep.confirm && v.MapOrder > 0 && try < 6; try++ {
						nr, err = nativeRun(o.repo, o.verif, ur.unit, patchesFor(ur.unit, patches), p, entriesOf(ur.prog), to)
						if err != nil {
							break
						}
						rep.confirm, rep.native = nr.confirms(rf.Expect)
						ev.replays++
					}
					if !rep.confirm && v.MapOrder > 0 {
						rep.confirm, rep.engineOnly = true, true
						rep.native = "depends on map iteration order: not reproduced by 7 native runs; confirmed by the engine's deterministic replay only"
					}
					if !rep.confirm {
						fmt.Printf("ENCODING-MISMATCH property=%s replay=%s (%s)\n%s\n", prop, p, rep.native, tail(nr.Output, 15))
					}
				}
				reports = append(reports, rep)
			}
		}
		return
	}

	reports, inconcl := collect(results, "none", nil)
	ev.absorb(results, "current tree")
	exit := 0
	var knownLines []string
	var finalReports []*violationReport
	mismatch := false
	for _, r := range reports {
		if !r.confirm {
			mismatch = true
		}
	}
	if len(reports) > 0 && !mismatch {
		// attribution to known findings
		ff := loadFindings(o.verif)
		var neutral []SourcePatch
		var used []string
		for _, f := range ff.Open {
			if !contains(f.Properties, prop) {
				continue
			}
			if !findingReproduces(o, &f) {
				continue
			}
			if ps := resolveNeutraliser(o.repo, o.verif, &f); ps != nil {
				knownLines = append(knownLines, fmt.Sprintf("KNOWN-FINDING: property=%s %s: %s", prop, f.ID, f.What))
				neutral = append(neutral, ps...)
				used = append(used, f.ID)
			} else {
				fmt.Printf("NOTE property=%s the witness of known finding %s still fails on this tree, but its neutralising overlay does not apply to the changed source: known and new violations cannot be separated and are all reported\n", prop, f.ID)
			}
		}
		if len(neutral) == 0 {
			finalReports = reports
		} else {
			results2 := explore(neutral)
			tag := "neutralised:" + strings.Join(used, ",")
			reports2, inconcl2 := collect(results2, tag, neutral)
			ev.absorb(results2, "current tree + neutraliser overlay for "+strings.Join(used, ","))
			ev.knownFindings = used
			inconcl = inconcl2
			results = results2
			finalReports = reports2
			for _, r := range reports2 {
				if !r.confirm {
					mismatch = true
				}
			}
		}
	}
	for _, l := range knownLines {
		fmt.Println(l)
	}
	// stale harnesses / vacuity
	allStale := true
	for _, ur := range results {
		if ur.staleWB != "" {
			ev.stale = append(ev.stale, fmt.Sprintf("%s: white-box harness dropped (%s); skipped entries %v", ur.unit.Package, ur.staleWB, ur.skipped))
			fmt.Printf("STALE-WHITEBOX property=%s package=%s skipped=%v: %s\n", prop, ur.unit.Package, ur.skipped, ur.staleWB)
		}
		if ur.stale != "" {
			ev.stale = append(ev.stale, ur.unit.Package+": "+firstLine(ur.stale))
			fmt.Printf("STALE-HARNESS property=%s package=%s: %s\n", prop, ur.unit.Package, firstLine(ur.stale))
		} else {
			allStale = false
		}
	}
	var missing []string
	if len(finalReports) == 0 {
		for _, ur := range results {
			if ur.run == nil {
				continue
			}
			for _, c := range ur.unit.RequiredCover {
				if ur.run.cover[c] == 0 {
					missing = append(missing, ur.unit.Package+":"+c)
				}
			}
		}
	}
	switch {
	case mismatch:
		exit = 2
	case len(finalReports) > 0:
		exit = 1
		for _, r := range finalReports {
			fmt.Printf("VIOLATION property=%s replay=%s\n", prop, r.path)
			fmt.Printf("  %s: %s [%s] in %s; %s\n", r.v.Kind, r.v.Label, r.v.Detail, r.v.Job, r.native)
		}
		ev.violations = len(finalReports)
	case len(inconcl) > 0 || len(selfBad) > 0 || allStale || len(missing) > 0:
		exit = 2
	}
	for _, m := range inconcl {
		fmt.Printf("INCONCLUSIVE property=%s %s\n", prop, m)
	}
	for _, m := range selfBad {
		fmt.Printf("SELFTEST-MISMATCH property=%s %s\n", prop, m)
	}
	for _, m := range missing {
		fmt.Printf("VACUOUS property=%s required cover label never reached: %s\n", prop, m)
	}
	ev.inconclusive = append(append(inconcl, selfBad...), missing...)
	ev.cross(o, results)
	if ev.crossDisagree > 0 && exit == 0 {
		exit = 2
		fmt.Printf("INCONCLUSIVE property=%s cross-solver disagreement on %d queries\n", prop, ev.crossDisagree)
	}
	ev.wall = time.Since(t0).Seconds()
	ev.exit = exit
	if err := ev.write(o.verif, spec); err != nil {
		fmt.Fprintln(os.Stderr, "cannot write evidence:", err)
		if exit == 0 {
			exit = 2
		}
	}
	fmt.Printf("check %s tier=%s exit=%d paths=%d obligations=%d discharged=%d queries=%d wall=%.1fs\n",
		prop, o.tier, exit, ev.states, ev.obligations, ev.discharged, ev.queries, ev.wall)
	return exit
}

func contains(xs []string, x string) bool {
	for _, y := range xs {
		if y == x {
			return true
		}
	}
	return false
}

func patchesFor(u *CheckSpec, patches []SourcePatch) []SourcePatch {
	return patches // patches address files by repo-relative path; harmless for other packages
}

// patchesApply reports whether every patch applies. A file named
// <pkg>/zz_verif_<x>.go is the harness file harness/<pkg base>/<x>.go as it
// appears in the overlay (a patch of the oracle's known-finding mode switch).
func patchesApply(repo, verif string, ps []SourcePatch) bool {
	files := map[string]string{}
	for _, p := range ps {
		src, ok := files[p.File]
		if !ok {
			path := filepath.Join(repo, p.File)
			if base := filepath.Base(p.File); strings.HasPrefix(base, "zz_verif_") {
				path = filepath.Join(verif, "harness", filepath.Base(filepath.Dir(p.File)), strings.TrimPrefix(base, "zz_verif_"))
			}
			b, err := os.ReadFile(path)
			if err != nil {
				return false
			}
			src = string(b)
		}
		ns, err := p.apply(src)
		if err != nil {
			return false
		}
		files[p.File] = ns
	}
	return true
}

func loadFindings(verif string) *FindingsFile {
	var ff FindingsFile
	b, err := os.ReadFile(filepath.Join(verif, "known_findings.json"))
	if err != nil {
		return &ff
	}
	if err := json.Unmarshal(b, &ff); err != nil {
		fmt.Fprintln(os.Stderr, "known_findings.json:", err)
	}
	return &ff
}

// findingReproduces runs the finding's concrete witness natively on the current tree.
func findingReproduces(o *checkOpts, f *Finding) bool {
	unit := &CheckSpec{Property: f.ID, Package: f.Package, HarnessFiles: []string{f.WitnessFile}}
	tmp, err := os.MkdirTemp("", "symgo-wit-")
	if err != nil {
		return false
	}
	defer os.RemoveAll(tmp)
	rf := &replayFile{Property: f.ID, Package: f.Package, Entry: f.Witness, Cases: map[string]int{}}
	b, _ := json.Marshal(rf)
	rp := filepath.Join(tmp, "witness.json")
	os.WriteFile(rp, b, 0o644)
	nr, err := nativeRun(o.repo, o.verif, unit, nil, rp, []string{f.Witness}, 15*time.Second)
	if err != nil {
		return false
	}
	return nr.Violation != "" || nr.Panic != "" || nr.Hang
}

func envOr(k, d string) string {
	if v := os.Getenv(k); v != "" {
		return v
	}
	return d
}
